import UberjobModel.Lemmas.CacheSpec
import UberjobModel.Lemmas.CacheHistory
import UberjobModel.Lemmas.ExecFinal
import UberjobModel.Lemmas.StaleExec
import UberjobModel.Props.C04
import UberjobModel.Lemmas.ExecProd
import UberjobModel.Props.C03
/-!
# C05 — exactly the out-of-date stored values are rebuilt; a repeated run does nothing

`isStale P w F i` is the model of `_get_stale_nodes` (the comparison itself is `Gen.Stale.staleCond`, regenerated
from caching.py on every run).  `OutOfDate` is the declarative reading of the property.  Plans, registries, store
states and `fresh_time` are arbitrary.
-/
namespace Uberjob.Cache
open Uberjob.Gen.Stale

/-- The stale check marks a node iff it is out of date in the sense of the property: some registered node upstream
    of it (or itself) is missing, or older than `fresh_time` (a source with nothing timed upstream is exempt), or
    older than a registered node upstream of it. -/
theorem C05_stale_spec {P : LPlan} (hP : P.WF) (w : World) (F : Option Int) (j : Nat) :
    isStale P w F j = true ↔ OutOfDate P w F j :=
  stale_iff_outOfDate hP w F j

/-- Out-of-dateness is inherited downstream. -/
theorem C05_downstream {P : LPlan} (hP : P.WF) (w : World) (F : Option Int) {q j : Nat}
    (hs : isStale P w F q = true) (h : Reach P q j) : isStale P w F j = true :=
  stale_reach hP w F hs h

/-- `fresh_time` can only add out-of-date values, never remove any. -/
theorem C05_fresh_monotone {P : LPlan} (hP : P.WF) (w : World) (F : Option Int) (j : Nat)
    (h : isStale P w F j = false) : isStale P w none j = false := by
  unfold isStale; rw [stale_mono_fresh hP w F j h]; exact h

/-- **A repeated run does nothing.**  After a run that rewrote exactly the out-of-date registered nodes (each once, at
    increasing modified times not before `fresh_time`, ancestors first) NO node is out of date any more — so the
    stale set of an immediately repeated run is empty and its physical plan contains no write (C09/C14: and with no
    output requested, no call and no read either). -/
theorem C05_idempotent {P : LPlan} (hP : P.WF) {w0 : World} (hg : Good P w0) {F : Option Int}
    {ops : List HOp} (hnd : NoDelete ops) (hok : OpsOk P w0 ops)
    (hnodup : ((linOf ops).map Prod.fst).Nodup)
    (hOnlyStale : ∀ j t, (j, t) ∈ linOf ops → (∃ s, P.reg j = some s) ∧ isStale P w0 F j = true)
    (hAllStale : ∀ j s, P.reg j = some s → isStale P w0 F j = true → ∃ t, (j, t) ∈ linOf ops)
    (hFresh : ∀ j t f, (j, t) ∈ linOf ops → F = some f → f ≤ t)
    (hOrder : ∀ q tq k tk, (q, tq) ∈ linOf ops → (k, tk) ∈ linOf ops → q ≠ k → Reach P q k → tq < tk) :
    ∀ j, isStale P (applyOps P w0 ops) F j = false :=
  (complete_run_correct hP hg hnd hok hnodup hOnlyStale hAllStale hFresh hOrder).1

/-! ### The stale check as it runs: concurrently, on the engine

`_get_stale_nodes` does not fold over the nodes in order: it hands `process` to `run_function_on_graph` (scheduler
"cheap", `stale_check_max_workers` threads).  `StaleExec.execOrder` applies `process(k)` — read the predecessors' slots,
write one's own — in the order in which a schedule of the engine model completes the nodes. -/

open Uberjob.StaleExec in
/-- **Every schedule of the engine computes the same stale check**: in every reachable state, every completed node holds
    exactly the sequential result `sres` (stale flag and carried modified time); a store has been asked for its modified
    time iff its node completed, is registered and has no out-of-date predecessor; and no store is asked twice. -/
theorem C05_stale_check_any_schedule {L : LPlan} (hL : L.WF) (w : World) (F : Option Int)
    {cfg : Engine.Cfg} {s : Engine.St} (h : Engine.Reach (stGraph L) cfg s) :
    let x := StaleExec.execOrder L w F s.okd
    (∀ k, k ∈ s.okd → x.look k = some (sres L w F k)) ∧
    (∀ k, k ∈ x.queried ↔ k ∈ s.okd ∧ (L.reg k).isSome ∧ (L.preds k).any (fun p => isStale L w F p) = false) ∧
    x.queried.Nodup := by
  intro x
  have I := sinv_reach hL w F h
  exact ⟨I.done, I.asked, I.once⟩

open Uberjob.StaleExec in
/-- A stale check that returns normally (no `get_modified_time` raised) has processed every node, under any schedule: the
    set it returns is `{k | isStale L w F k}`. -/
theorem C05_stale_check_result {L : LPlan} (hL : L.WF) (w : World) (F : Option Int)
    {cfg : Engine.Cfg} (hw : 1 ≤ cfg.workers) {s : Engine.St} (h : Engine.Reach (stGraph L) cfg s)
    (hc : s.coord = .returned false) (hf : s.failed = []) :
    ∀ k, k < L.n → ((StaleExec.execOrder L w F s.okd).look k).map (·.stale) = some (isStale L w F k) := by
  intro k hk
  have hrank : (stGraph L).Ranked id := by
    intro x y hy
    have := ((stGraph_wf L).adj x y).mp hy
    simp only [stGraph, Engine.Graph.ofEdges, Engine.mem_dedup, List.mem_map, List.mem_filter, List.mem_flatMap,
      List.mem_range, beq_iff_eq] at this
    obtain ⟨e, ⟨⟨⟨j, _, p, hp, rfl⟩, _⟩, h2⟩, h1⟩ := this
    simp only at h1 h2
    subst h1; subst h2
    exact hL.predsLt _ _ hp
  have hall := (Engine.C04_exact (stGraph_wf L) hw h hrank hc hf).2
  have := (sinv_reach hL w F h).done k ((hall k).mpr (mem_stGraph_nodes.mpr hk))
  rw [this]; rfl

/-! ### End to end (stale check + physical plan + engine + stores; see Props/C03.lean for the setting) -/

open Uberjob.Phys Uberjob.Exec in
/-- **In every reachable state of every schedule** — successful, failing or cut short: a stored value is rewritten only
    if it is registered as a non-source and out of date; an up-to-date stored value (and a source) is never recomputed
    (its own call never begins); and a store is read only through its own read node. -/
theorem C05_end_to_end_only_stale {P : Input} {w0 : World} {F : Option Int} {c0 : Int} (S : Setup P w0 F c0)
    {cfg : Engine.Cfg} {s : Engine.St} (h : Engine.Reach (engineGraph P) cfg s) :
    (∀ i, code (.write i) ∈ s.begun → P.regOf i = some false ∧ isStale P.toLPlan w0 F i = true) ∧
    (∀ i sr, P.regOf i = some sr → (sr = true ∨ isStale P.toLPlan w0 F i = false) → code (.orig i) ∉ s.begun) ∧
    s.begun.Nodup := by
  refine ⟨?_, ?_, Engine.C04_once (engine_wf P) h⟩
  · intro i hb
    obtain ⟨h1, h2⟩ := write_node_reg S.wf (begun_built S h (fun _ hh => hh) (okd_begun h) (xinv_reach S h) hb).2
    exact ⟨h1, by rw [← S.stale]; exact h2⟩
  · intro i sr hr hns hb
    refine kept_orig_pruned S.wf hr ?_ (begun_built S h (fun _ hh => hh) (okd_begun h) (xinv_reach S h) hb).1
    rcases hns with h1 | h1
    · exact Or.inl h1
    · exact Or.inr (by rw [S.stale]; exact h1)

open Uberjob.Phys Uberjob.Exec in
/-- **A run that returns normally, under ANY schedule, has rewritten exactly the out-of-date stored values — and
    afterwards nothing is out of date**: the stale set of a run repeated immediately (same `fresh_time`) is empty, so its
    physical plan contains no write node, and with no output requested no call and no read (C09/C14). -/
theorem C05_end_to_end {P : Input} {w0 : World} {F : Option Int} {c0 : Int} (S : Setup P w0 F c0)
    {cfg : Engine.Cfg} (hw : 1 ≤ cfg.workers) {s : Engine.St} (h : Engine.Reach (engineGraph P) cfg s)
    (hc : s.coord = .returned false) (hf : s.failed = []) :
    (∀ i, code (.write i) ∈ s.okd ↔ P.regOf i = some false ∧ isStale P.toLPlan w0 F i = true) ∧
    ∀ j, isStale P.toLPlan (execOrder P (initX w0 c0) s.okd).w F j = false := by
  have hL := toLPlan_wf S.wf
  have I := xinv_reach S h
  have hall := (Engine.C04_exact (engine_wf P) hw h (rank := id) (engine_ranked S.wf) hc hf).2
  have hi := Engine.inv_reach (engine_wf P) h
  have hwr : ∀ i, code (.write i) ∈ s.okd ↔ P.regOf i = some false ∧ isStale P.toLPlan w0 F i = true := by
    intro i
    constructor
    · intro hm
      obtain ⟨h1, h2⟩ := write_node_reg S.wf (okd_node h hm)
      exact ⟨h1, by rw [← S.stale]; exact h2⟩
    · rintro ⟨h1, h2⟩
      exact (hall _).mpr (write_kept S.wf h1 (by rw [S.stale]; exact h2))
  refine ⟨hwr, ?_⟩
  apply complete_run_fresh hL (w0 := w0) (F := F) (lin := Exec.linOf s.okd (execOrder P (initX w0 c0) s.okd).w)
  · intro j hj
    by_cases hm : code (.write j) ∈ s.okd
    · obtain ⟨t, ht, _⟩ := I.written j hm
      exact absurd (Exec.mem_linOf.mpr ⟨hm, by simp [World.mtime, ht]⟩) (hj t)
    · exact I.untouched j hm
  · intro j t hm; exact (Exec.mem_linOf.mp hm).2
  · intro j t hm
    obtain ⟨h1, h2⟩ := (hwr j).mp (Exec.mem_linOf.mp hm).1
    exact ⟨⟨false, h1⟩, h2⟩
  · intro j sj hreg hst
    cases sj with
    | true => rw [← S.stale, S.srcFresh j hreg] at hst; cases hst
    | false =>
      have hm := (hwr j).mpr ⟨hreg, hst⟩
      obtain ⟨t, ht, _⟩ := I.written j hm
      exact ⟨t, Exec.mem_linOf.mpr ⟨hm, by simp [World.mtime, ht]⟩⟩
  · intro j t hm
    obtain ⟨hm1, hm2⟩ := Exec.mem_linOf.mp hm
    obtain ⟨t', ht', hc'⟩ := I.written j hm1
    have : t = t' := by simp [World.mtime, ht'] at hm2; exact hm2.symm
    subst this
    exact ⟨below_mono S.below hc', fun f hf' => Int.le_trans (S.fresh f hf') hc'⟩
  · intro q tq k tk hq hk hne hr
    obtain ⟨hq1, hq2⟩ := Exec.mem_linOf.mp hq
    obtain ⟨hk1, hk2⟩ := Exec.mem_linOf.mp hk
    exact I.order q k tq tk hne hq1 hk1 hq2 hk2 hr

open Uberjob.Phys Uberjob.Exec in
/-- **With producers** (`Model/ExecProd.lean`), in every reachable state of every schedule: a store is given a new value — by its
    write node, or, a dependent source, by its producer — only if it is registered and out of date; so an up-to-date
    dependent source is never rewritten (its private producer does not even run: `producer_kept_stale`).  That nothing is
    out of date after a normal return is the last clause of `C03_end_to_end_prod`. -/
theorem C05_end_to_end_prod_only_stale {P : Input} {pr : Nat → Option Nat} {w0 : World} {F : Option Int} {c0 : Int}
    (S : SetupP P pr w0 F c0) {cfg : Engine.Cfg} {s : Engine.St} (h : Engine.Reach (engineGraph P) cfg s) :
    (∀ i, Tch pr s.okd i → (∃ sr, P.regOf i = some sr) ∧ isStale P.toLPlan w0 F i = true) ∧
    (∀ j d, pr j = some d → code (.orig j) ∈ s.begun → isStale P.toLPlan w0 F d = true) := by
  constructor
  · intro i ht
    obtain ⟨h1, h2⟩ := tch_stale S h (xinvP_reach S h) ht
    exact ⟨h1, by rw [← S.stale]; exact h2⟩
  · intro j d hp hb
    rw [← S.stale]
    exact producer_kept_stale S hp (begun_builtP S h hb).1

section RepeatedRun
open Uberjob.Phys Uberjob.Exec
section generic
variable {α : Type} [DecidableEq α]

theorem ancStep_nil (es : List (Edge α)) : ancStep es [] = [] := by
  simp [ancStep, dedup]

theorem anc_nil (es : List (Edge α)) (k : Nat) : anc es k [] = [] := by
  induction k with
  | zero => rfl
  | succ k ih => simp [anc, ancStep_nil, ih]

theorem prunePlan_nothing (isLit : α → Bool) (fuel : Nat) (G : PG α) :
    (prunePlan isLit fuel [] none G).nodes = [] ∧ (prunePlan isLit fuel [] none G).edges = [] := by
  simp [prunePlan, pruneAnc, anc_nil, pruneLiterals]

end generic

theorem stale_nil_of_fresh {P : Input} (h : ∀ x, P.isStale x = false) : P.stale = [] := by
  apply List.eq_nil_iff_forall_not_mem.mpr
  intro x hx
  have := h x
  simp [Input.isStale, hx] at this

/-- If nothing is out of date and no output is requested, the graph handed to the engine is empty, so nothing begins. -/
theorem empty_when_nothing_stale (P2 : Input) (hout : P2.out = none) (hfresh : ∀ x, P2.isStale x = false) :
    (engineGraph P2).nodes = [] ∧
    ∀ (cfg2 : Engine.Cfg) (s2 : Engine.St), Engine.Reach (engineGraph P2) cfg2 s2 → s2.begun = [] := by
  have hst : P2.stale = [] := stale_nil_of_fresh hfresh
  have hreq : required P2 = [] := by simp [required, Input.isStale, hst]
  have hpo : physOut P2 = none := by simp [physOut, hout]
  have hn : (physFinal P2).nodes = [] := by
    unfold physFinal; rw [hreq, hpo]; exact (prunePlan_nothing _ _ _).1
  have he : (engineGraph P2).nodes = [] := by
    simp [engineGraph, toEngine, physEngine, dropSourceLits, hn, Engine.Graph.ofEdges, Engine.dedup]
  refine ⟨he, ?_⟩
  intro cfg2 s2 h2
  apply List.eq_nil_iff_forall_not_mem.mpr
  intro x hx
  have := Engine.begun_in_nodes (engine_wf P2) h2 x hx
  rw [he] at this
  cases this

/-- **A run repeated immediately, with no output requested, performs no call, no read and no write — as a statement about
    what is executed.**  `P2` is the second run's input: the same plan and registry, no output, and the stale set its stale
    check computes from the stores the first run left (any first run that returned normally, under any schedule).  Then the
    graph handed to the engine is EMPTY, so in every reachable state of every schedule nothing has begun. -/
theorem C05_repeated_run_nothing {P : Input} {w0 : World} {F : Option Int} {c0 : Int} (S : Setup P w0 F c0)
    {cfg : Engine.Cfg} (hw : 1 ≤ cfg.workers) {s : Engine.St} (h : Engine.Reach (engineGraph P) cfg s)
    (hc : s.coord = .returned false) (hf : s.failed = [])
    (P2 : Input) (hsame : P2.toLPlan = P.toLPlan) (hout : P2.out = none)
    (hstale : ∀ x, P2.isStale x = isStale P2.toLPlan (execOrder P (initX w0 c0) s.okd).w F x) :
    (engineGraph P2).nodes = [] ∧
    ∀ (cfg2 : Engine.Cfg) (s2 : Engine.St), Engine.Reach (engineGraph P2) cfg2 s2 → s2.begun = [] := by
  exact empty_when_nothing_stale P2 hout
    (fun x => by rw [hstale x, hsame]; exact (C05_end_to_end S hw h hc hf).2 x)

/-- The same after a run WITH PRODUCERS (`C03_end_to_end_prod`): dependent sources were refreshed by their producers, and a run
    repeated immediately executes nothing — no producer either. -/
theorem C05_repeated_run_nothing_prod {P : Input} {pr : Nat → Option Nat} {w0 : World} {F : Option Int} {c0 : Int}
    (S : SetupP P pr w0 F c0)
    {cfg : Engine.Cfg} (hw : 1 ≤ cfg.workers) {s : Engine.St} (h : Engine.Reach (engineGraph P) cfg s)
    (hc : s.coord = .returned false) (hf : s.failed = [])
    (P2 : Input) (hsame : P2.toLPlan = P.toLPlan) (hout : P2.out = none)
    (hstale : ∀ x, P2.isStale x = isStale P2.toLPlan (execOrderP P pr (initX w0 c0) s.okd).w F x) :
    (engineGraph P2).nodes = [] ∧
    ∀ (cfg2 : Engine.Cfg) (s2 : Engine.St), Engine.Reach (engineGraph P2) cfg2 s2 → s2.begun = [] :=
  empty_when_nothing_stale P2 hout
    (fun x => by rw [hstale x, hsame]; exact (C03_end_to_end_prod S hw h hc hf).2.2.2.2 x)

/-- ... and such a second run exists for every first run: the same plan with the empty stale set is what its stale check
    returns (`C05_end_to_end`), so the hypotheses above are satisfiable by construction. -/
theorem C05_repeated_run_exists {P : Input} {w0 : World} {F : Option Int} {c0 : Int} (S : Setup P w0 F c0)
    {cfg : Engine.Cfg} (hw : 1 ≤ cfg.workers) {s : Engine.St} (h : Engine.Reach (engineGraph P) cfg s)
    (hc : s.coord = .returned false) (hf : s.failed = []) :
    let P2 : Input := { P with stale := [], out := none }
    P2.toLPlan = P.toLPlan ∧ P2.out = none ∧
    ∀ x, P2.isStale x = isStale P2.toLPlan (execOrder P (initX w0 c0) s.okd).w F x := by
  refine ⟨rfl, rfl, fun x => ?_⟩
  have := (C05_end_to_end S hw h hc hf).2 x
  simp only [Input.isStale, List.contains_nil]
  exact this.symm

end RepeatedRun

/-- The facts about caching.py / pruning.py the model relies on still hold in the current source. -/
theorem C05_source_shape : facts.ok = true := by decide

/-! Non-vacuity (plan `chain`: source 0 → unstored 1 → stored 2). -/
def chainP : LPlan := ⟨3, fun i => if i = 0 then [] else [i - 1], fun i => if i = 0 then [] else [i - 1],
  fun i => if i = 0 then some true else if i = 2 then some false else none⟩
def wA : World := applyOps chainP ⟨fun _ => none⟩ [.update 0 (.src 0 1) 5]
example : (List.range 3).filter (isStale chainP wA none) = [2] := by decide
example : (List.range 3).filter (isStale chainP (applyOps chainP wA [.write 2 6]) none) = [] := by decide
example : (List.range 3).filter (isStale chainP (applyOps chainP wA [.write 2 6]) (some 7)) = [2] := by decide
/-- the same stale check, as the engine runs it (one worker, to the normal return): node 2 ends up stale, only the stores
    of nodes 0 and 2 are asked for their modified time -/
def chainRun : List Engine.Label :=
  [.spawn, .get 0 (.node 0), .check 0, .finOk 0, .release 0 1, .taskDone 0,
   .get 0 (.node 1), .check 0, .finOk 0, .release 0 2, .taskDone 0,
   .get 0 (.node 2), .check 0, .finOk 0, .taskDone 0,
   .joinReturn, .setStop, .putDone, .get 0 .done, .check 0, .taskDone 0, .joined]
example : (Engine.run? (StaleExec.stGraph chainP) ⟨1, some 0⟩ (Engine.init (StaleExec.stGraph chainP)) chainRun).map
    (fun s => (s.coord, s.failed, s.okd)) = some (.returned false, [], [0, 1, 2]) := by decide
example : ((StaleExec.execOrder chainP wA none [0, 1, 2]).look 2).map (·.stale) = some true ∧
    (StaleExec.execOrder chainP wA none [0, 1, 2]).queried = [0, 2] := by decide

end Uberjob.Cache
