import UberjobModel.Lemmas.ProgressElapsed
import UberjobModel.Lemmas.ProgressConsole
import UberjobModel.Lemmas.ProgressSort
import UberjobModel.Lemmas.ProgressStrings
/-!
# C20 — bundled progress displays render every reachable state, ending with the final

Claimed as *proof, partial*.  Proved here, about the model whose arithmetic, guards and strings are regenerated from
`uberjob/progress/*.py` (`Gen.Progress`) and whose control structure is pinned by `Gen.Progress.shape`:
the bookkeeping of `State`, the string functions, the update thread's last rendering, the time attribution (over ℚ), the
sort of the scopes, the console's "print a finished section once" logic.  Only sampled (harness/props/c20.py): float
rounding of `weighted_elapsed`, `traceback.format_exception`, `html.escape`, `ipywidgets`, `str()` of scope values,
CPython's `sorted` (modelled as a stable insertion sort whose comparison may raise).

Throughout: `l` is a whole notification sequence, `Legal l` is C15's predicate, `evs` is **any** interleaving of the
notifications between `enter` and `exit` (`notifsOf evs = body l`) with render points (`Ev.wake`) of the update thread,
carrying arbitrary rational clock readings; `doRender … o t t2` is the one further `_do_render` the update thread
performs after `__exit__` has set the done event.
-/
namespace Uberjob.Progress
open Uberjob.Gen.Progress

/-- The source still has the shape the model assumes (update thread renders once more after the done event, notifications
    set `_stale` under the lock, the HTML renderer divides only by `total`, …) and `sorted_scope_items` has its fallback. -/
theorem C20_shape : shape.faithful = true ∧ sortHasFallback = true := by decide

private theorem sum_pos_of_all_pos (l : List Int) (h : ∀ x ∈ l, 1 ≤ x) (hne : l ≠ []) : 1 ≤ l.sum := by
  cases l with
  | nil => exact absurd rfl hne
  | cons a l =>
    simp only [List.sum_cons]
    have := h a (by simp)
    have := sum_nonneg l (fun x hx => by have := h x (by simp [hx]); omega)
    omega

/-- **Bookkeeping.**  On every legal sequence, with render points anywhere, after every prefix (`evs.take i`):
    no notification looks up a missing section/scope key and none removes an absent scope state (`Obs.run` returns `ok`);
    the dict keys are distinct; `0 ≤ running, completed, failed`; a scope state is in `_running_scope_states` iff it is
    running; `running_count = Σ running`.  If all announced amounts are ≥ 1 (`PosTotals`), every present scope has
    `total ≥ 1`, so the HTML renderer — the only one that divides, and only by `total` and by the sum of the totals of a
    section with several scopes — cannot divide by zero.  If no scope is reported running more often than announced
    (`WithinTotals`), `completed + failed + running ≤ total`. -/
theorem C20_state_total {l : List Notif} (hl : Legal l) (m start : Rat) (evs : List Ev)
    (hevs : notifsOf evs = body l) (i : Nat) :
    ∃ o, Obs.run m (Obs.init start) (evs.take i) = .ok o ∧
      o.st.keys.Nodup ∧
      (∀ k ∈ o.st.keys, 0 ≤ (o.st.cell k).running ∧ 0 ≤ (o.st.cell k).completed ∧ 0 ≤ (o.st.cell k).failed ∧
        ((o.st.cell k).inSet = true ↔ (o.st.cell k).running ≠ 0)) ∧
      o.st.rc = sumRunning o.st ∧
      (PosTotals (body l) → (∀ k ∈ o.st.keys, 1 ≤ (o.st.cell k).total) ∧ htmlRenderOk o.st = true) ∧
      (WithinTotals (body l) → ∀ k ∈ o.st.keys,
        (o.st.cell k).completed + (o.st.cell k).failed + (o.st.cell k).running ≤ (o.st.cell k).total) := by
  have hb := hl.2.2.2.toP
  have hp : notifsOf (evs.take i) <+: body l := hevs ▸ notifsOf_take_prefix evs i
  obtain ⟨o, hrun, hs, hann⟩ := run_ind hb m (fun p o => ∀ k ∈ o.st.keys, announced k p = true)
    (fun p o ev o' _ hP _ hstep => obsStep_keys_announced hstep hP) (evs.take i) [] (Obs.init start)
    (sync_init start) (by simp [Obs.init, PState.init]) (by simpa using hp)
  simp only [List.nil_append] at hs hann
  refine ⟨o, hrun, hs.nodup, ?_, hs.rcSum, ?_, ?_⟩
  · intro k hk
    have h1 := hs.running_nonneg hb hp k hk
    have h2 := hs.nonneg k hk
    refine ⟨h1, h2.1, h2.2, ?_⟩
    rw [hs.inSet k hk]; simp
  · intro hpos
    have htot : ∀ k ∈ o.st.keys, 1 ≤ (o.st.cell k).total := by
      intro k hk
      have := totalSum_pos (hann k hk) (fun x hx => hpos x (hp.subset hx))
      have := hs.total k hk
      omega
    refine ⟨htot, ?_⟩
    simp only [htmlRenderOk, List.all_eq_true]
    intro sec _
    have hall : ∀ p ∈ secCells o.st sec, 1 ≤ p.2.total := by
      intro p hp'
      simp only [secCells, List.mem_map, List.mem_filter] at hp'
      obtain ⟨k, ⟨hk, _⟩, rfl⟩ := hp'
      exact htot k hk
    simp only [Bool.and_eq_true, List.all_eq_true, Bool.or_eq_true, Bool.not_eq_true', decide_eq_false_iff_not,
      bne_iff_ne, ne_eq]
    refine ⟨fun p hp' => by have := hall p hp'; omega, ?_⟩
    by_cases hlen : (secCells o.st sec).length > 1
    · right
      have : 1 ≤ ((secCells o.st sec).map (fun p => p.2.total)).sum := by
        apply sum_pos_of_all_pos
        · intro x hx
          simp only [List.mem_map] at hx
          obtain ⟨p, hp', rfl⟩ := hx
          exact hall p hp'
        · intro h
          have := congrArg List.length h
          simp only [List.length_map, List.length_nil] at this
          omega
      omega
    · left; exact hlen
  · intro hw k hk
    have h1 := hs.running k hk
    have h2 := hs.done k hk
    have h3 := hs.total k hk
    have h4 := hw.toP _ k hp
    have h5 := hb.finLeRun _ k hp
    omega

/-- Boundary of the previous theorem (C15's `Legal` says nothing about amounts): a legal sequence announcing an amount of
    zero reaches a state on which `_render_scope` divides by zero.  `uberjob.run` announces `collections.Counter`
    counts, which are ≥ 1. -/
theorem C20_zero_total_witness :
    Legal [.enter, .total 1 0 0, .exit] ∧
    ((Obs.run 1 (Obs.init 0) [.notif 0 (.total 1 0 0)]).toOption.map (fun o => htmlRenderOk o.st)) = some false := by
  decide

/-- **Strings.**  `get_elapsed_string` is the hours/minutes/seconds decomposition of `int(elapsed)`: the three numbers
    recombine to the argument, minutes and seconds are below 60 (so the decomposition is the unique one), and the string
    is `<h>h<mm>m<ss>s`, `<m>m<ss>s` or `<s>s` according to the first non-zero component, `mm`/`ss` zero-padded to two
    digits.  The generated functions are total Lean functions: the translation admits `//` and `%` only with positive
    constant divisors. -/
theorem C20_strings_total (e : Nat) :
    e = 3600 * (hms e).1 + 60 * (hms e).2.1 + (hms e).2.2 ∧ (hms e).2.1 < 60 ∧ (hms e).2.2 < 60 ∧
    (∀ h m s, m < 60 → s < 60 → e = 3600 * h + 60 * m + s → (h, m, s) = hms e) ∧
    elapsedString e =
      (if (hms e).1 ≠ 0 then toString (hms e).1 ++ "h" ++ pad2 (hms e).2.1 ++ "m" ++ pad2 (hms e).2.2 ++ "s"
       else if (hms e).2.1 ≠ 0 then toString (hms e).2.1 ++ "m" ++ pad2 (hms e).2.2 ++ "s"
       else toString (hms e).2.2 ++ "s") ∧
    (∀ n, pad2 n = if n < 10 then "0" ++ toString n else toString n) := by
  obtain ⟨h1, h2, h3⟩ := hms_sound e
  refine ⟨h1, h2, h3, ?_, elapsedString_eq e, pad2_eq⟩
  intro h m s hm hs he
  obtain ⟨a, b, c⟩ := hms_unique h m s _ _ _ hm hs h2 h3 (he.symm.trans h1)
  rw [a, b, c]

/-- `_get_progress_string`: `c / t` when everything is finished or nothing has started, `(c + r) / t` otherwise, followed
    by `, f failed` iff `f ≠ 0`. -/
theorem C20_progress_string (c f r t : Nat) :
    progressString c f r t =
      (if c + f = t ∨ c + f + r = 0 then toString c ++ " / " ++ toString t
       else "(" ++ toString c ++ " + " ++ toString r ++ ") / " ++ toString t)
      ++ (if f ≠ 0 then ", " ++ toString f ++ " failed" else "") :=
  progressString_eq c f r t

/-- **Last rendering.**  Whatever the interleaving of notifications and render points, the run of the observer does not
    fail and, after the one further `_do_render` that follows the done event, at least one rendering has been emitted and
    the last one shows exactly the final counts: it was produced after all `(body l).length` notifications, from the
    final dict (same keys, same `ScopeState` counters). -/
theorem C20_last_render {l : List Notif} (hl : Legal l) (m start : Rat) (evs : List Ev)
    (hevs : notifsOf evs = body l) (t t2 : Rat) :
    ∃ o, Obs.run m (Obs.init start) evs = .ok o ∧
      ∃ out, (doRender m o t t2).outs.getLast? = some out ∧ out.seen = (body l).length ∧
        out.keys = o.st.keys ∧ out.cell = o.st.cell := by
  have hb := hl.2.2.2.toP
  obtain ⟨o, hrun, _⟩ := run_ok hb m evs start (by rw [hevs]; exact List.prefix_refl _)
  refine ⟨o, hrun, ?_⟩
  have hf := run_fresh evs _ o hrun (by simp [Obs.init])
  obtain ⟨⟨out, h1, h2, h3, h4⟩, _⟩ := doRender_fresh m o t t2 hf
  have hseen := run_seen evs _ o hrun
  have hs' : (doRender m o t t2).seen = o.seen := by unfold doRender; split <;> rfl
  refine ⟨out, h1, ?_, ?_, ?_⟩
  · rw [h2, hs', hseen, hevs]; simp [Obs.init]
  · rw [h3, doRender_keys]
  · rw [h4, doRender_cell]

/-- **Time attribution.**  At every moment (after every prefix of any interleaving, for any rational timestamps) the
    weighted elapsed times of all scopes add up to `busyUpTo`: the time, from the start to the last clock reading
    `_prev_time`, during which at least one call was in flight according to the notifications alone.  (With
    non-decreasing timestamps this is the measure of `{t | running_count t > 0}`.)  Exact over ℚ; the float rounding of
    the real code is only sampled. -/
theorem C20_elapsed_sum {l : List Notif} (hl : Legal l) (m start : Rat) (evs : List Ev)
    (hevs : notifsOf evs = body l) (i : Nat) :
    ∃ o, Obs.run m (Obs.init start) (evs.take i) = .ok o ∧
      sumWeighted o.st = busyUpTo start (evs.take i) o.st.prev := by
  have hb := hl.2.2.2.toP
  have hp : notifsOf (evs.take i) <+: body l := hevs ▸ notifsOf_take_prefix evs i
  obtain ⟨o, hrun, _, he⟩ := einv_run hb m (evs.take i) [] (Obs.init start) { prev := start, act := 0, acc := 0 }
    (sync_init start) ⟨rfl, by simp [sumWeighted, Obs.init, PState.init]; grind⟩ (by simpa using hp)
  exact ⟨o, hrun, he.2⟩

/-- … and when the run is over nothing is in flight, so the sum is the whole busy time whatever the last reading is. -/
theorem C20_elapsed_sum_final {l : List Notif} (hl : Legal l) (m start : Rat) (evs : List Ev)
    (hevs : notifsOf evs = body l) (t t2 T : Rat) :
    ∃ o, Obs.run m (Obs.init start) evs = .ok o ∧
      sumWeighted (doRender m o t t2).st = busyUpTo start evs T := by
  have hb := hl.2.2.2.toP
  obtain ⟨o, hrun, hs, he⟩ := einv_run hb m evs [] (Obs.init start) { prev := start, act := 0, acc := 0 }
    (sync_init start) ⟨rfl, by simp [sumWeighted, Obs.init, PState.init]; grind⟩
    (by rw [List.nil_append, hevs]; exact List.prefix_refl _)
  refine ⟨o, hrun, ?_⟩
  simp only [List.nil_append] at hs
  -- nothing is running at exit
  have hact : o.st.rc = 0 := by
    rw [hs.rcSum]
    have : ∀ x ∈ o.st.keys.map (fun k => (o.st.cell k).running), x = 0 := by
      intro x hx
      simp only [List.mem_map] at hx
      obtain ⟨k, hk, rfl⟩ := hx
      have := hs.running k hk
      have := hb.balanced k
      rw [hevs] at *
      omega
    simp only [sumRunning]
    generalize o.st.keys.map (fun k => (o.st.cell k).running) = L at this
    induction L with
    | nil => rfl
    | cons a L ih =>
      simp only [List.sum_cons]
      rw [this a (by simp), ih (fun x hx => this x (by simp [hx]))]; rfl
  obtain ⟨h1, h2⟩ := he
  have hB : ¬ (0 < (evs.foldl Busy.step { prev := start, act := 0, acc := 0 }).act) := by rw [h1, hact]; decide
  have hst : sumWeighted (doRender m o t t2).st = sumWeighted o.st := by
    rcases doRender_st m o t t2 with h | h <;> rw [h]
    rw [sumWeighted_uwe hs, hact]; simp; grind
  rw [hst, h2]
  simp only [busyUpTo, hB, if_false]

/-- **Sorting never raises.**  Whatever the natural key does (`natural` may raise on any pair), with the source's
    `try … except TypeError` fallback (`sortHasFallback`, regenerated from the source) `sorted_scope_items` returns a
    permutation of the items; when the natural sort raised, the result is ordered by the fallback key. -/
theorem C20_sort_total {α : Type} (natural : α → α → Option Bool) (fallback : α → α → Bool) (xs : List α) :
    ∃ r, sortedScopeItems sortHasFallback natural fallback xs = some r ∧ r.Perm xs := by
  have hf : sortHasFallback = true := by decide
  rw [hf]
  unfold sortedScopeItems
  cases h : sortBy natural xs with
  | some r => exact ⟨r, rfl, sortBy_perm xs r h⟩
  | none =>
    simp only [if_true]
    have := sortBy_total (lt := fun a b => some (fallback a b)) (fun _ _ => rfl) xs
    obtain ⟨r, hr⟩ := Option.isSome_iff_exists.mp this
    exact ⟨r, hr, sortBy_perm xs r hr⟩

/-- The fallback key `tuple((str(type(x)), str(x)) for x in scope)` is a strict total order on arbitrary scope tuples
    (irreflexive, asymmetric, `≤` transitive, any two comparable), so the fallback sort yields an ordered list. -/
theorem C20_fallback_total_preorder :
    (∀ a, fallbackLt a a = false) ∧ (∀ a b, fallbackLt a b = true → fallbackLt b a = false) ∧
    (∀ a b c, fallbackLt b a = false → fallbackLt c b = false → fallbackLt c a = false) ∧
    (∀ a b, fallbackLt a b = false ∨ fallbackLt b a = false) ∧
    (∀ (natural : List ScopeElt → List ScopeElt → Option Bool) xs r, sortBy natural xs = none →
      sortedScopeItems sortHasFallback natural fallbackLt xs = some r → r.Pairwise (fun a b => fallbackLt b a = false)) := by
  refine ⟨fallbackLt_irrefl, fallbackLt_asymm, fallbackLt_le_trans, fallbackLt_total, ?_⟩
  intro natural xs r hn hr
  have hf : sortHasFallback = true := by decide
  simp only [sortedScopeItems, hn, hf, if_true] at hr
  exact sortBy_sorted fallbackLt_asymm fallbackLt_le_trans xs r hr

/-- A sort raises only if the comparison of two of the items raises. -/
theorem C20_sort_raises_only_if {α : Type} (lt : α → α → Option Bool) (xs : List α) (h : sortBy lt xs = none) :
    ∃ a ∈ xs, ∃ b ∈ xs, lt a b = none :=
  sortBy_none xs h

def complexScope (im : Int) (s : String) : List ScopeElt := [⟨"<class 'complex'>", s, .atom (.cplx 0 im)⟩]
def tupleScope (l : List Atom) (s : String) : List ScopeElt := [⟨"<class 'tuple'>", s, .tup l⟩]

/-- **Finding F4 (fixed by 4ec6fa3).**  WITHOUT the fallback, sorting raises on scopes whose first differing values have
    one type without `<`: `(1j,)` vs `(2j,)`, and `((1, 'a'),)` vs `((1, 2),)`; with it the same inputs are sorted. -/
theorem C20_sort_defect_witness :
    sortedScopeItems false naturalLt? fallbackLt [complexScope 1 "1j", complexScope 2 "2j"] = none ∧
    sortedScopeItems false naturalLt? fallbackLt
      [tupleScope [.int 1, .str "a"] "(1, 'a')", tupleScope [.int 1, .int 2] "(1, 2)"] = none ∧
    sortedScopeItems true naturalLt? fallbackLt [complexScope 2 "2j", complexScope 1 "1j"]
      = some [complexScope 1 "1j", complexScope 2 "2j"] := by
  decide

/-- **Console.**  For run-shaped sequences (amounts ≥ 1, never more runnings than announced, all totals of a section before
    its first activity) the console observer, which prints a finished section only once, has — after the final
    `_do_render` — last printed, for every displayed non-empty section, exactly that section's final counts. -/
theorem C20_console_final {l : List Notif} (hl : Legal l) (hpos : PosTotals (body l)) (hw : WithinTotals (body l))
    (htf : TotalsFirst (body l)) (m start : Rat) (evs : List Ev) (hevs : notifsOf evs = body l) (t t2 : Rat) :
    ∃ o, Obs.run m (Obs.init start) evs = .ok o ∧
      ∀ sec ∈ renderedSecs, secCells o.st sec ≠ [] →
        (doRender m o t t2).con.printed sec = some (secCells o.st sec) := by
  have hb := hl.2.2.2.toP
  obtain ⟨o, hrun, _, hP⟩ := run_ind hb m ConP
    (fun p o ev o' hs hP hp hstep => conP_step hb hpos hw htf hs hP hp hstep) evs [] (Obs.init start)
    (sync_init start) (conP_init start) (by rw [List.nil_append, hevs]; exact List.prefix_refl _)
  refine ⟨o, hrun, ?_⟩
  intro sec hsec hne
  have hc := (conP_render m t t2 hP).2
  have hstale : (doRender m o t t2).stale = false := (doRender_fresh m o t t2 (fun _ => by
    -- `Fresh` is irrelevant here; reuse the lemma only for the staleness part
    exact (run_fresh evs _ o hrun (by simp [Obs.init])) ‹_›)).2
  have hcells : secCells (doRender m o t t2).st sec = secCells o.st sec := by
    simp [secCells, doRender_keys, doRender_cell]
  have := hc.fresh hstale sec hsec (by rw [hcells]; exact hne)
  rw [this, hcells]

def lateTotals : List Notif :=
  [.enter, .total 1 0 1, .running 1 0, .completed 1 0, .total 1 1 1, .running 1 1, .completed 1 1, .exit]

def lateTotalsEvs : List Ev :=
  [.notif 0 (.total 1 0 1), .notif 1 (.running 1 0), .notif 2 (.completed 1 0), .wake 3 3,
   .notif 4 (.total 1 1 1), .notif 5 (.running 1 1), .notif 6 (.completed 1 1)]

/-- Boundary of `C20_console_final`: C15's `Legal` alone (even with `PosTotals` and `WithinTotals`) is not enough.  If the
    totals of a second scope arrive after the section was rendered as finished, the final rendering skips the section and
    the second scope's final counts are never printed.  `uberjob.run` announces all totals of a section first. -/
theorem C20_console_late_totals_witness :
    Legal lateTotals ∧ PosTotals (body lateTotals) ∧ WithinTotals (body lateTotals) ∧ ¬ TotalsFirst (body lateTotals) ∧
    notifsOf lateTotalsEvs = body lateTotals ∧
    ((Obs.run 300 (Obs.init 0) lateTotalsEvs).toOption.map (fun o =>
      decide ((doRender 300 o 7 7).con.printed 1 = some (secCells o.st 1)))) = some false := by
  decide

/-! ## Non-vacuity -/

def sample : List Notif :=
  [.enter, .total 0 0 2, .total 1 0 2, .total 1 1 1, .running 0 0, .completed 0 0, .running 0 0, .completed 0 0,
   .running 1 0, .running 1 1, .completed 1 0, .running 1 0, .failed 1 1, .completed 1 0, .exit]

example : Legal sample ∧ PosTotals (body sample) ∧ WithinTotals (body sample) ∧ TotalsFirst (body sample) := by decide
example : ¬ Legal [.enter, .total 1 0 1, .completed 1 0, .exit] := by decide
example : ¬ Legal [.enter, .running 1 0, .completed 1 0, .exit] := by decide
example : ¬ Legal [.enter, .total 1 0 1, .running 1 0, .exit] := by decide
example : elapsedString 3725 = "1h02m05s" := by decide
example : elapsedString 59 = "59s" ∧ elapsedString 60 = "1m00s" ∧ elapsedString 3600 = "1h00m00s" := by decide
example : progressString 1 2 3 10 = "(1 + 3) / 10, 2 failed" ∧ progressString 0 0 0 4 = "0 / 4" := by decide
/-- the error branch is real: a `running` for a key that was never announced is a `KeyError` in the model too -/
example : (Obs.run 300 (Obs.init 0) [.notif 0 (.total 1 0 1), .notif 1 (.running 1 7)]).toOption.isNone = true := by
  decide

end Uberjob.Progress
