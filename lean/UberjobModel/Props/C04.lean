import UberjobModel.Lemmas.EnginePath
import UberjobModel.Lemmas.EngineComplete
import UberjobModel.Lemmas.Queues
import UberjobModel.Lemmas.GraphWF
import UberjobModel.Lemmas.EngineExamples
/-!
# C04 — each needed call runs exactly once (engine part)

Quantified over every graph, worker count, `max_errors`, outcome pattern, queue discipline and
interleaving (see C01).  "At most once" holds in every reachable state, i.e. also in failing and
interrupted runs.
-/
namespace Uberjob.Engine

/-- No node's function is entered twice. -/
theorem C04_once {g : Graph} (hg : g.WF) {cfg : Cfg} {s : St} (h : Reach g cfg s) : s.begun.Nodup :=
  (inv_reach hg h).begunNodup

/-- No node is put in the ready queue twice (initial items included). -/
theorem C04_enqueued_once {g : Graph} (hg : g.WF) {cfg : Cfg} {s : St} (h : Reach g cfg s) :
    ∀ x, s.enq.count x ≤ 1 :=
  (inv_reach hg h).once

/-- Every enqueued node is in exactly one place: in the queue, with exactly one worker, or retired. -/
theorem C04_place {g : Graph} (hg : g.WF) {cfg : Cfg} {s : St} (h : Reach g cfg s) :
    ∀ x, s.queue.count (.node x) + s.ws.countP (holds x) + s.retired.count x = s.enq.count x :=
  (inv_reach hg h).place

/-- Only nodes of the graph handed to the engine are ever run. -/
theorem C04_only_graph_nodes {g : Graph} (hg : g.WF) {cfg : Cfg} {s : St} (h : Reach g cfg s) :
    ∀ x ∈ s.begun, x ∈ g.nodes :=
  begun_in_nodes hg h

/-- The graph is acyclic: some rank strictly increases along every edge (what `assert_acyclic` guarantees, C07). -/
def Graph.Ranked (g : Graph) (rank : Nat → Nat) : Prop := ∀ x y, y ∈ g.succs x → rank x < rank y

open Uberjob.Gen.Engine in
/-- **A run that returns normally has executed exactly the nodes of the graph** (each once, by `C04_once`):
    no failure and no interrupt ⇒ every node of an acyclic graph was begun and completed. -/
theorem C04_exact {g : Graph} (hg : g.WF) {cfg : Cfg} (hw : 1 ≤ cfg.workers) {s : St} (hr : Reach g cfg s)
    {rank : Nat → Nat} (hrank : g.Ranked rank) (hc : s.coord = .returned false) (hf : s.failed = []) :
    (∀ x, x ∈ s.begun ↔ x ∈ g.nodes) ∧ (∀ x, x ∈ s.okd ↔ x ∈ g.nodes) := by
  have hi := inv_reach hg hr
  have h4 := inv4_reach hg hw hr
  have hskip : s.skipped = [] := by
    cases hs : s.skipped with
    | nil => rfl
    | cons a t =>
      rcases h4.skipWhy (by rw [hs]; simp) with ⟨k, _, hlt⟩ | h1
      · have := (inv2_reach hw hr).errsLen; rw [hf] at this; simp at this; omega
      · rw [hc] at h1; cases h1
  obtain ⟨q1, q2, _⟩ := h4.quiet (by rw [hc]; rfl)
  -- whatever was enqueued has completed OK
  have enq_okd : ∀ y, y ∈ s.enq → y ∈ s.okd ∧ y ∈ s.retired := by
    intro y hy
    have hpl := hi.place y
    have hone := hi.once y
    have hpos := List.count_pos_iff.mpr hy
    have hq0 : s.queue.count (Item.node y) = 0 := List.count_eq_zero.mpr (q1 y)
    have hw0 : s.ws.countP (holds y) = 0 := by
      apply List.countP_eq_zero.mpr
      intro v hv; simp [holds, q2 v hv]
    simp only [cnt, qCount, wCount, rCount] at hpl
    have hret : y ∈ s.retired := List.count_pos_iff.mp (by omega)
    rcases h4.retWhy y hret with h1 | h1 | h1
    · exact ⟨h1, hret⟩
    · rw [hf] at h1; cases h1
    · rw [hskip] at h1; cases h1
  -- every node is enqueued (induction along the rank)
  have key : ∀ n y, rank y ≤ n → y ∈ g.nodes → y ∈ s.enq := by
    intro n
    induction n with
    | zero =>
      intro y hy hyn
      have hp : g.preds y = [] := by
        cases hpy : g.preds y with
        | nil => rfl
        | cons p t =>
          have := hrank p y ((hg.adj p y).mpr (by rw [hpy]; simp)); omega
      apply h4.srcEnq
      simp [sources, hyn, Graph.predCount, hp, classify_source_iff]
    | succ n ih =>
      intro y hy hyn
      cases hpy : g.preds y with
      | nil =>
        apply h4.srcEnq
        simp [sources, hyn, Graph.predCount, hpy, classify_source_iff]
      | cons p0 t =>
        apply h4.relEnq y (by rw [hpy]; simp)
        intro p hp
        have hsp : y ∈ g.succs p := (hg.adj p y).mpr hp
        have hlt := hrank p y hsp
        have hpn : p ∈ g.nodes := (hg.succsNodes p y hsp).1
        obtain ⟨hpo, hpr⟩ := enq_okd p (ih p (by omega) hpn)
        exact h4.okdRel p hpr hpo y hsp
  have all_okd : ∀ y, y ∈ g.nodes → y ∈ s.okd := fun y hy => (enq_okd y (key (rank y) y (Nat.le_refl _) hy)).1
  refine ⟨fun x => ⟨C04_only_graph_nodes hg hr x, fun hx => hi.okBegun x (all_okd x hx)⟩,
          fun x => ⟨fun hx => C04_only_graph_nodes hg hr x (hi.okBegun x hx), all_okd x⟩⟩

/-! ### the random bag (`scheduler='random'`) keeps every item exactly once

The engine model lets a worker take ANY queued item, so the theorems above already cover every queue discipline that
neither loses nor duplicates items.  For `RandomQueue` this is proved of the transcribed `_put` / `_get`; for the
priority heap it is `heapq`'s contract (trusted, compared in every T3 snapshot). -/

/-- `RandomQueue._put`: after the append-and-swap the queue holds the old items plus the new one, whatever index
    `random.randrange` returned. -/
theorem C04_random_put_perm (q : List Nat) (item r : Nat) : (Uberjob.Queues.randomPut q item r).Perm (item :: q) :=
  Uberjob.Queues.randomPut_perm q item r

/-- `RandomQueue._get` removes exactly the item it returns. -/
theorem C04_random_get_perm (q : List Nat) (x : Nat) (rest : List Nat)
    (h : Uberjob.Queues.randomGet q = some (x, rest)) : q.Perm (x :: rest) :=
  Uberjob.Queues.randomGet_perm q x rest h

/-- The queue classes and `create_queue` still have the transcribed shape. -/
theorem C04_queue_shapes : Uberjob.Gen.Queues.facts.ok = true := by decide

example : (run? diamond ⟨2, some 0⟩ (init diamond) diamondRun).map (·.enq) = some [0, 1, 2, 3] := by decide
example : Uberjob.Queues.randomPut [5, 6, 7] 9 1 = [5, 9, 7, 6] := by decide

end Uberjob.Engine
