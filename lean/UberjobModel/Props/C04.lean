import UberjobModel.Lemmas.EnginePath
import UberjobModel.Lemmas.EngineComplete
import UberjobModel.Lemmas.Queues
import UberjobModel.Lemmas.PQueue
import UberjobModel.Lemmas.PQueueOrder
import UberjobModel.Lemmas.GraphWF
import UberjobModel.Lemmas.EngineExamples
import UberjobModel.Lemmas.ExecNeeded
/-!
# C04 — each needed call runs exactly once (engine part)

Quantified over every graph, worker count, `max_errors`, outcome pattern, queue discipline and
interleaving (see C01).  "At most once" holds in every reachable state, i.e. also in failing and
interrupted runs.
-/
namespace Uberjob.Engine

/-- No node's function is entered twice. -/
theorem C04_once {g : Graph} (hg : g.WF) {cfg : Cfg} {s : St} (h : Reach g cfg s) : s.begun.Nodup :=
  (inv_reach hg h).begunNodup

/-- No node is put in the ready queue twice (initial items included). -/
theorem C04_enqueued_once {g : Graph} (hg : g.WF) {cfg : Cfg} {s : St} (h : Reach g cfg s) :
    ∀ x, s.enq.count x ≤ 1 :=
  (inv_reach hg h).once

/-- Every enqueued node is in exactly one place: in the queue, with exactly one worker, or retired. -/
theorem C04_place {g : Graph} (hg : g.WF) {cfg : Cfg} {s : St} (h : Reach g cfg s) :
    ∀ x, s.queue.count (.node x) + s.ws.countP (holds x) + s.retired.count x = s.enq.count x :=
  (inv_reach hg h).place

/-- Only nodes of the graph handed to the engine are ever run. -/
theorem C04_only_graph_nodes {g : Graph} (hg : g.WF) {cfg : Cfg} {s : St} (h : Reach g cfg s) :
    ∀ x ∈ s.begun, x ∈ g.nodes :=
  begun_in_nodes hg h

/-- The graph is acyclic: some rank strictly increases along every edge (what `assert_acyclic` guarantees, C07). -/
def Graph.Ranked (g : Graph) (rank : Nat → Nat) : Prop := ∀ x y, y ∈ g.succs x → rank x < rank y

open Uberjob.Gen.Engine in
/-- **A run that returns normally has executed exactly the nodes of the graph** (each once, by `C04_once`):
    no failure and no interrupt ⇒ every node of an acyclic graph was begun and completed. -/
theorem C04_exact {g : Graph} (hg : g.WF) {cfg : Cfg} (hw : 1 ≤ cfg.workers) {s : St} (hr : Reach g cfg s)
    {rank : Nat → Nat} (hrank : g.Ranked rank) (hc : s.coord = .returned false) (hf : s.failed = []) :
    (∀ x, x ∈ s.begun ↔ x ∈ g.nodes) ∧ (∀ x, x ∈ s.okd ↔ x ∈ g.nodes) := by
  have hi := inv_reach hg hr
  have h4 := inv4_reach hg hw hr
  have hskip : s.skipped = [] := by
    cases hs : s.skipped with
    | nil => rfl
    | cons a t =>
      rcases h4.skipWhy (by rw [hs]; simp) with ⟨k, _, hlt⟩ | h1
      · have := (inv2_reach hw hr).errsLen; rw [hf] at this; simp at this; omega
      · rw [hc] at h1; cases h1
  obtain ⟨q1, q2, _⟩ := h4.quiet (by rw [hc]; rfl)
  -- whatever was enqueued has completed OK
  have enq_okd : ∀ y, y ∈ s.enq → y ∈ s.okd ∧ y ∈ s.retired := by
    intro y hy
    have hpl := hi.place y
    have hone := hi.once y
    have hpos := List.count_pos_iff.mpr hy
    have hq0 : s.queue.count (Item.node y) = 0 := List.count_eq_zero.mpr (q1 y)
    have hw0 : s.ws.countP (holds y) = 0 := by
      apply List.countP_eq_zero.mpr
      intro v hv; simp [holds, q2 v hv]
    simp only [cnt, qCount, wCount, rCount] at hpl
    have hret : y ∈ s.retired := List.count_pos_iff.mp (by omega)
    rcases h4.retWhy y hret with h1 | h1 | h1
    · exact ⟨h1, hret⟩
    · rw [hf] at h1; cases h1
    · rw [hskip] at h1; cases h1
  -- every node is enqueued (induction along the rank)
  have key : ∀ n y, rank y ≤ n → y ∈ g.nodes → y ∈ s.enq := by
    intro n
    induction n with
    | zero =>
      intro y hy hyn
      have hp : g.preds y = [] := by
        cases hpy : g.preds y with
        | nil => rfl
        | cons p t =>
          have := hrank p y ((hg.adj p y).mpr (by rw [hpy]; simp)); omega
      apply h4.srcEnq
      simp [sources, hyn, Graph.predCount, hp, classify_source_iff]
    | succ n ih =>
      intro y hy hyn
      cases hpy : g.preds y with
      | nil =>
        apply h4.srcEnq
        simp [sources, hyn, Graph.predCount, hpy, classify_source_iff]
      | cons p0 t =>
        apply h4.relEnq y (by rw [hpy]; simp)
        intro p hp
        have hsp : y ∈ g.succs p := (hg.adj p y).mpr hp
        have hlt := hrank p y hsp
        have hpn : p ∈ g.nodes := (hg.succsNodes p y hsp).1
        obtain ⟨hpo, hpr⟩ := enq_okd p (ih p (by omega) hpn)
        exact h4.okdRel p hpr hpo y hsp
  have all_okd : ∀ y, y ∈ g.nodes → y ∈ s.okd := fun y hy => (enq_okd y (key (rank y) y (Nat.le_refl _) hy)).1
  refine ⟨fun x => ⟨C04_only_graph_nodes hg hr x, fun hx => hi.okBegun x (all_okd x hx)⟩,
          fun x => ⟨fun hx => C04_only_graph_nodes hg hr x (hi.okBegun x hx), all_okd x⟩⟩

/-! ### with a registry: exactly the NEEDED calls run

`Exec.Needed P j` is stated on the user's plan: `j` is the requested output (and has no store), or a stored value that
has to be rebuilt, or — having no store — feeds directly a node without a store that is needed, or an out-of-date
registered node (a stored value to rebuild, a source to refresh).  Nothing else: in particular nothing that only an
up-to-date stored value or source depends on. -/

open Uberjob.Phys Uberjob.Exec in
/-- In EVERY reachable state of every schedule (failures, interrupts included) a user call has begun only if it is needed. -/
theorem C04_only_needed {P : Input} (hP : P.WF) {cfg : Cfg} {s : St} (h : Reach (engineGraph P) cfg s) {j : Nat}
    (hjn : j ∈ P.nodes) (hl : P.lits.contains j = false) (hb : code (.orig j) ∈ s.begun) : Needed P j :=
  (needed_iff_kept hP hjn hl).mp (C04_only_graph_nodes (engine_wf P) h _ hb)

open Uberjob.Phys Uberjob.Exec in
/-- **A run that returns normally has executed exactly the needed calls, each once.** -/
theorem C04_runs_exactly_needed {P : Input} (hP : P.WF) {cfg : Cfg} (hw : 1 ≤ cfg.workers) {s : St}
    (h : Reach (engineGraph P) cfg s) (hc : s.coord = .returned false) (hf : s.failed = []) {j : Nat}
    (hjn : j ∈ P.nodes) (hl : P.lits.contains j = false) :
    (code (.orig j) ∈ s.okd ↔ Needed P j) ∧ s.begun.Nodup := by
  have hall := (C04_exact (engine_wf P) hw h (rank := id) (engine_ranked hP) hc hf).2
  exact ⟨(hall _).trans (needed_iff_kept hP hjn hl), C04_once (engine_wf P) h⟩

/-! Non-vacuity: source 0 → stored 1 (up to date) → call 2 → stored 3 (out of date); call 4 also consumes 1; no output.
    The call 2 is needed (it feeds the stored value that is rebuilt), the stored value 3 is rebuilt; the up-to-date stored
    value 1 and the call 4 nobody asked for are not. -/
def exN : Uberjob.Phys.Input :=
  ⟨[0, 1, 2, 3, 4], [], [⟨0, 1, .pos 0⟩, ⟨1, 2, .pos 0⟩, ⟨2, 3, .pos 0⟩, ⟨1, 4, .pos 0⟩],
   [(0, true), (1, false), (3, false)], [3], none⟩

open Uberjob.Phys Uberjob.Exec in
example : Needed exN 2 ∧ Needed exN 3 :=
  ⟨.feedsStale (k := 3) (key := .pos 0) (sk := false) (by decide) (by decide) (by decide) (by decide),
   .rebuilt (by decide) (by decide)⟩

open Uberjob.Phys Uberjob.Exec in
example : ¬ Needed exN 4 ∧ ¬ Needed exN 1 := by
  have hwf : exN.WF := by constructor <;> decide
  constructor
  · intro h
    have := (needed_iff_kept hwf (by decide) (by decide)).mpr h
    revert this; decide
  · intro h
    have := (needed_iff_kept hwf (by decide) (by decide)).mpr h
    revert this; decide

/-! ### the random bag (`scheduler='random'`) keeps every item exactly once

The engine model lets a worker take ANY queued item, so the theorems above already cover every queue discipline that
neither loses nor duplicates items.  For `RandomQueue` this is proved of the transcribed `_put` / `_get`; for the
priority heap (`scheduler='default'`) of the transcribed `heapq` algorithms (`Model/PQueue.lean`), which the differential
in harness/props/c04.py compares with the real `PriorityQueue` (C `_heapq`) list after every operation. -/

/-- `RandomQueue._put`: after the append-and-swap the queue holds the old items plus the new one, whatever index
    `random.randrange` returned. -/
theorem C04_random_put_perm (q : List Nat) (item r : Nat) : (Uberjob.Queues.randomPut q item r).Perm (item :: q) :=
  Uberjob.Queues.randomPut_perm q item r

/-- `RandomQueue._get` removes exactly the item it returns. -/
theorem C04_random_get_perm (q : List Nat) (x : Nat) (rest : List Nat)
    (h : Uberjob.Queues.randomGet q = some (x, rest)) : q.Perm (x :: rest) :=
  Uberjob.Queues.randomGet_perm q x rest h

/-- `PriorityQueue.__init__` (`heapify`): the heap holds exactly the initial items, whatever their priorities. -/
theorem C04_priority_init_perm (prio : Nat → Int) (items : List Nat) :
    ((Uberjob.PQueue.init prio items).map (·.2)).Perm items :=
  Uberjob.PQueue.init_perm prio items

/-- `PriorityQueue._put` (`heappush`): the old items plus the new one - on ANY list, heap-shaped or not, with ties and
    negative priorities (the DONE sentinel). -/
theorem C04_priority_put_perm (prio : Nat → Int) (h : List Uberjob.PQueue.E) (item : Nat) :
    ((Uberjob.PQueue.put prio h item).map (·.2)).Perm (item :: h.map (·.2)) :=
  Uberjob.PQueue.put_perm prio h item

/-- `PriorityQueue._get` (`heappop`) removes exactly the item it returns, and returns one whenever the heap is not empty. -/
theorem C04_priority_get_perm (h : List Uberjob.PQueue.E) (v : Nat) (rest : List Uberjob.PQueue.E)
    (hg : Uberjob.PQueue.get h = some (v, rest)) : (h.map (·.2)).Perm (v :: rest.map (·.2)) :=
  Uberjob.PQueue.get_perm h v rest hg

theorem C04_priority_get_none (h : List Uberjob.PQueue.E) : Uberjob.PQueue.get h = none ↔ h = [] :=
  Uberjob.PQueue.get_none h

/-- Beyond what C04 needs: every state of the priority queue reachable from its constructor by `_put`s and `_get`s is a heap
    (`HeapFrom 0`: no item has a smaller key than its parent) … -/
theorem C04_priority_reachable_heap (prio : Nat → Int) (items : List Nat) (ops : List (Option Nat)) :
    Uberjob.PQueue.HeapFrom 0 (ops.foldl (Uberjob.PQueue.stepQ prio) (Uberjob.PQueue.init prio items)) :=
  Uberjob.PQueue.reach_heap prio items ops

/-- … and on a heap `_get` hands out an item whose priority number is minimal among everything queued: the default
    scheduler does follow `greedy.get_priority_mapping`, and the DONE sentinel (priority -1) overtakes every node. -/
theorem C04_priority_get_min (h : List Uberjob.PQueue.E) (v : Nat) (rest : List Uberjob.PQueue.E)
    (hh : Uberjob.PQueue.HeapFrom 0 h) (hg : Uberjob.PQueue.get h = some (v, rest)) :
    Uberjob.PQueue.HeapFrom 0 rest ∧ ∃ k, (k, v) ∈ h ∧ ∀ y ∈ rest, k ≤ y.1 :=
  Uberjob.PQueue.get_heap h v rest hh hg

/-- The queue classes and `create_queue` still have the transcribed shape. -/
theorem C04_queue_shapes : Uberjob.Gen.Queues.facts.ok = true := by decide

example : (run? diamond ⟨2, some 0⟩ (init diamond) diamondRun).map (·.enq) = some [0, 1, 2, 3] := by decide
example : Uberjob.Queues.randomPut [5, 6, 7] 9 1 = [5, 9, 7, 6] := by decide
example : Uberjob.PQueue.init (fun v => [5, 3, -1, 3, 0].getD (v - 1) (-1)) [1, 2, 3, 4, 5]
    = [(-1, 3), (0, 5), (5, 1), (3, 4), (3, 2)] := by decide
example : Uberjob.PQueue.get [(-1, 7), (0, 1), (3, 2)] = some (7, [(0, 1), (3, 2)]) := by decide

end Uberjob.Engine
