import UberjobModel.Lemmas.EnginePath
import UberjobModel.Lemmas.GraphWF
import UberjobModel.Lemmas.EngineExamples
/-!
# C04 — each needed call runs exactly once (engine part)

Quantified over every graph, worker count, `max_errors`, outcome pattern, queue discipline and
interleaving (see C01).  "At most once" holds in every reachable state, i.e. also in failing and
interrupted runs.
-/
namespace Uberjob.Engine

/-- No node's function is entered twice. -/
theorem C04_once {g : Graph} (hg : g.WF) {cfg : Cfg} {s : St} (h : Reach g cfg s) : s.begun.Nodup :=
  (inv_reach hg h).begunNodup

/-- No node is put in the ready queue twice (initial items included). -/
theorem C04_enqueued_once {g : Graph} (hg : g.WF) {cfg : Cfg} {s : St} (h : Reach g cfg s) :
    ∀ x, s.enq.count x ≤ 1 :=
  (inv_reach hg h).once

/-- Every enqueued node is in exactly one place: in the queue, with exactly one worker, or retired. -/
theorem C04_place {g : Graph} (hg : g.WF) {cfg : Cfg} {s : St} (h : Reach g cfg s) :
    ∀ x, s.queue.count (.node x) + s.ws.countP (holds x) + s.retired.count x = s.enq.count x :=
  (inv_reach hg h).place

/-- Only nodes of the graph handed to the engine are ever run. -/
theorem C04_only_graph_nodes {g : Graph} (hg : g.WF) {cfg : Cfg} {s : St} (h : Reach g cfg s) :
    ∀ x ∈ s.begun, x ∈ g.nodes := by
  intro x hx
  have hi := inv_reach hg h
  have h1 := hi.begunCnt x hx
  have h2 := hi.place x
  have h3 : 0 < s.enq.count x := by omega
  have h4 : x ∈ s.enq := List.count_pos_iff.mp h3
  clear h1 h2 h3 hx
  induction h with
  | init => simp [init, sources] at h4; exact h4.1
  | step l hr hs ih =>
    have hi' := inv_reach hg hr
    cases l <;> simp only [step?] at hs
    case release w y =>
      split at hs
      · next x' todo hw =>
        split at hs
        · next hyt =>
          cases hs
          simp only at h4
          split at h4
          · simp only [List.mem_append, List.mem_singleton] at h4
            rcases h4 with h4 | h4
            · exact ih hi' h4
            · subst h4
              have := (hi'.relsing x' todo (List.mem_of_getElem? hw)).2.2.1 x hyt
              exact (hg.succsNodes _ _ this.1).2
          · exact ih hi' h4
        · cases hs
      · cases hs
    all_goals
      repeat' split at hs
      all_goals first | (cases hs; exact ih hi' h4) | cases hs

example : (run? diamond ⟨2, some 0⟩ (init diamond) diamondRun).map (·.enq) = some [0, 1, 2, 3] := by decide

end Uberjob.Engine
