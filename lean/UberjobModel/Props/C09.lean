import UberjobModel.Lemmas.PhysStale
import UberjobModel.Lemmas.PhysLoop
import UberjobModel.Lemmas.PhysChain
import UberjobModel.Props.C01
import UberjobModel.Props.C04
import UberjobModel.Lemmas.ExecFinal
import UberjobModel.Lemmas.ExecNorm
/-!
# C09 — rebuilt stored values are written, then read back, before downstream use

`Input` = a logical plan (nodes in `graph.nodes()` order, keyed edges, which nodes are literals), the registry in
mapping order, the outcome `stale` of the stale check, and the output node.  `physBuild P` is the graph after the loop
of `plan_with_value_stores`, `physFinal P` what `run(dry_run=True)` returns (`prune_plan`, with the generated literal
inequality `Gen.Stale.keepLiteral`), `engineGraph P` what `run_physical` hands to `run_function_on_graph`
(Model/Phys.lean; compared with the real `dry_run` graphs node by node and edge by edge on every check).

Everything below is for EVERY well-formed input (`Input.WF`: topological ids, edges/registry refer to plan nodes, the
registry is a mapping), every registry order, every stale set, every output; the ordering statements hold in EVERY
reachable state of the engine model on the physical plan: every worker count, `max_errors`, queue discipline,
interleaving, outcome of every call (C01).
-/
namespace Uberjob.Phys
open Uberjob

/-- **The loop of `plan_with_value_stores` builds the closed form `physBuild`, for EVERY registry order.**
    `planWithValueStores P` is the transcription of the code: a fold over `registry.mapping` (in insertion order) of
    `_add_value_store`, which snapshots the CURRENT out-edges of the node, adds the store literal / read / write-or-Barrier
    (the Barrier inheriting the CURRENT predecessors), and re-attaches the snapshot edges.  The result has exactly the
    nodes (in order) and the edge set of the order-independent description all other theorems are about.
    (`SrcDeps`: every edge into a source is a plain dependency — sources are created by `registry.source`.) -/
theorem C09_loop_is_closed_form {P : Input} (hP : P.WF) (hS : P.SrcDeps) :
    (planWithValueStores P).nodes = (physBuild P).nodes ∧
    ∀ e, e ∈ (planWithValueStores P).edges ↔ e ∈ (physBuild P).edges :=
  loop_same hP hS

/-- **The gadget of a rebuilt stored value and the rewiring of its consumers** (graph before pruning).
    For an out-of-date registered non-source `i`: `storeLit i →[0] write i`, `orig i →[1] write i`,
    `write i →[dep] read i`, `storeLit i →[0] read i`; every argument consumer `c` takes its argument (same key) from
    `read i`; every plain dependent `d` depends on `write i`; and the ONLY edge that leaves the call `orig i` is the
    one into its write node. -/
theorem C09_edges {P : Input} {i : Nat} (hreg : P.regOf i = some false) (hst : P.isStale i = true) :
    (⟨.storeLit i, .write i, .pos 0⟩ : Edge PN) ∈ (physBuild P).edges ∧
    (⟨.orig i, .write i, .pos 1⟩ : Edge PN) ∈ (physBuild P).edges ∧
    (⟨.write i, .read i, .dep⟩ : Edge PN) ∈ (physBuild P).edges ∧
    (⟨.storeLit i, .read i, .pos 0⟩ : Edge PN) ∈ (physBuild P).edges ∧
    (∀ c k, (⟨i, c, k⟩ : LEdge) ∈ P.edges → k.isArg = true → (⟨.read i, .orig c, k⟩ : Edge PN) ∈ (physBuild P).edges) ∧
    (∀ d, (⟨i, d, .dep⟩ : LEdge) ∈ P.edges → (⟨.write i, .orig d, .dep⟩ : Edge PN) ∈ (physBuild P).edges) ∧
    (∀ e ∈ (physBuild P).edges, e.src = .orig i → e = ⟨.orig i, .write i, .pos 1⟩) := by
  have hm := mem_of_regOf hreg
  have hg : ∀ e, e ∈ P.gadgetEdges (i, false) → e ∈ (physBuild P).edges :=
    fun e he => mem_built_edges.mpr (Or.inr ⟨(i, false), hm, he⟩)
  refine ⟨hg _ (by simp [Input.gadgetEdges, hst]), hg _ (by simp [Input.gadgetEdges, hst]),
    hg _ (by simp [Input.gadgetEdges, hst]), hg _ (by simp [Input.gadgetEdges]), ?_, ?_, ?_⟩
  · intro c k he hk
    exact mem_built_edges.mpr (Or.inl ⟨_, he, by simp [Input.rewire, hreg, hk]⟩)
  · intro d he
    exact mem_built_edges.mpr (Or.inl ⟨_, he, by simp [Input.rewire, hreg, Key.isArg, Input.depSrc, hst, Input.W]⟩)
  · intro e he hs
    rcases mem_built_edges.mp he with ⟨le, _, hr⟩ | ⟨r, hrm, hge⟩
    · rcases rewire_cases hr with ⟨h0, rfl⟩ | ⟨_, _, _, rfl⟩ | ⟨_, _, _, _, rfl⟩
      · simp only [PN.orig.injEq] at hs; rw [hs, hreg] at h0; cases h0
      · cases hs
      · exact absurd hs (W_not_orig P _ _)
    · rcases gadget_cases hge with rfl | ⟨_, _, rfl | ⟨u, a, _, ha, rfl⟩⟩ | ⟨_, _, rfl | rfl | rfl⟩
      · cases hs
      · cases hs
      · rcases depSrc_cases ha with ⟨h0, rfl⟩ | ⟨_, _, _, rfl⟩
        · simp only [PN.orig.injEq] at hs; rw [hs, hreg] at h0; cases h0
        · exact absurd hs (W_not_orig P _ _)
      · cases hs
      · simp only [PN.orig.injEq] at hs; rw [hs]
      · cases hs

/-- **What a consumer receives**: in the physical plan every ARGUMENT edge into a node `orig c` is a logical
    argument edge `u →k c` with the same key, re-pointed to `read u` when `u` is registered — whether `u` is out of
    date or not — and left at `orig u` only when `u` is not registered.  So a consumer never sees the in-memory result
    of a registered call, only what the store's `read` returned. -/
theorem C09_args_from_read {P : Input} {e : Edge PN} (he : e ∈ (physBuild P).edges) {c : Nat}
    (hd : e.dst = .orig c) (hk : e.key.isArg = true) :
    ∃ u, (⟨u, c, e.key⟩ : LEdge) ∈ P.edges ∧
      e.src = (if (P.regOf u).isSome then PN.read u else PN.orig u) := by
  rcases mem_built_edges.mp he with ⟨le, hle, hr⟩ | ⟨r, _, hge⟩
  · have hle' : ∀ k, k = le.key → (⟨le.src, le.dst, k⟩ : LEdge) ∈ P.edges := by
      intro k hk'; subst hk'; exact hle
    rcases rewire_cases hr with ⟨h0, rfl⟩ | ⟨s, h0, _, rfl⟩ | ⟨_, _, _, _, rfl⟩
    · simp only [PN.orig.injEq] at hd; subst hd
      exact ⟨le.src, hle' _ rfl, by simp [h0]⟩
    · simp only [PN.orig.injEq] at hd; subst hd
      exact ⟨le.src, hle' _ rfl, by simp [h0]⟩
    · cases hk
  · rcases gadget_cases hge with rfl | ⟨_, _, rfl | ⟨u, a, _, _, rfl⟩⟩ | ⟨_, _, rfl | rfl | rfl⟩ <;> cases hd

/-- The output of the run is redirected to the read node of a registered output node. -/
theorem C09_output {P : Input} {o : Nat} (ho : P.out = some o) :
    physOut P = some (if (P.regOf o).isSome then .read o else .orig o) := by
  simp [physOut, ho]

/-- **Ancestor pruning keeps every path into a kept node**, start included (`rank`: any function that increases along
    the edges, bounded by `fuel` on the required nodes — `code` and `fuelOf` for physical plans). -/
theorem C09_ancestors_keep_paths {α : Type} [DecidableEq α] (G : PG α) (rank : α → Nat)
    (hr : ∀ e ∈ G.edges, rank e.src < rank e.dst) (fuel : Nat) (req : List α) (hS : ∀ r ∈ req, rank r < fuel)
    {a b : α} (h : Path G.edges a b) (hb : b ∈ (pruneAnc fuel req G).nodes) :
    Path (pruneAnc fuel req G).edges a b ∧ (a ∈ G.nodes → a ∈ (pruneAnc fuel req G).nodes) := by
  obtain ⟨h1, h2⟩ := pruneAnc_path rank hr hS h (mem_pruneAnc_nodes.mp hb).2
  exact ⟨h1, fun ha => mem_pruneAnc_nodes.mpr ⟨ha, h2⟩⟩

/-- **Literal pruning preserves reachability among the remaining nodes** — for the removal of ANY list of
    candidates in ANY order (each removed literal `l` is replaced by the edges pred(l) × succ(l)). -/
theorem C09_prune_preserves_paths {α : Type} [DecidableEq α] (G : PG α) (cands : List α) {a b : α}
    (h : Path G.edges a b) (ha : a ∈ (cands.foldl pruneLit G).nodes) (hb : b ∈ (cands.foldl pruneLit G).nodes) :
    Path (cands.foldl pruneLit G).edges a b :=
  foldLit_path h ha hb

/-- Both pruning steps of `prune_plan` together, on the physical plan: a path from a call into a node of the plan
    `dry_run` returns is a path of that plan. -/
theorem C09_final_paths {P : Input} (hP : P.WF) {a b : PN} (hab : Path (physBuild P).edges a b)
    (ha : a.isLit P = false) (hb : b ∈ (physFinal P).nodes) :
    Path (physFinal P).edges a b ∧ a ∈ (physFinal P).nodes :=
  final_path hP hab ha hb

/-- **Order, general form.**  If the physical plan before pruning has a path from a call `a` to `b`, then in every
    reachable engine state in which `b` has begun, `a` has completed successfully. -/
theorem C09_path_order {P : Input} (hP : P.WF) {cfg : Engine.Cfg} {s : Engine.St}
    (h : Engine.Reach (engineGraph P) cfg s) {a b : PN} (hab : Path (physBuild P).edges a b)
    (ha : a.isLit P = false) (hb : code b ∈ s.begun) : code a ∈ s.okd := by
  have hwf : (engineGraph P).WF := Engine.ofEdges_wf _ _
  have hbn := Engine.C04_only_graph_nodes hwf h _ hb
  exact Engine.C01_transitive hwf h (engine_path hP hab ha hbn) hb

/-- **Order.**  `i` registered (not a source) and out of date, `c` any node with a logical edge `i →k c`.
    In every reachable engine state in which `c` has begun: the write of `i` has completed; if `k` is an argument key
    the read-back of `i` has completed too; and (when `i` is a call) so has the call of `i` itself. -/
theorem C09_order {P : Input} (hP : P.WF) {cfg : Engine.Cfg} {s : Engine.St}
    (h : Engine.Reach (engineGraph P) cfg s) {i c : Nat} {k : Key}
    (hreg : P.regOf i = some false) (hst : P.isStale i = true) (he : (⟨i, c, k⟩ : LEdge) ∈ P.edges)
    (hc : code (.orig c) ∈ s.begun) :
    code (.write i) ∈ s.okd ∧ (k.isArg = true → code (.read i) ∈ s.okd) ∧
      (P.lits.contains i = false → code (.orig i) ∈ s.okd) := by
  obtain ⟨_, e1, e2, _, hargs, hdeps, _⟩ := C09_edges hreg hst
  have hwr : Adj (physBuild P).edges (.write i) (.read i) := adj_of_mem e2
  have how : Adj (physBuild P).edges (.orig i) (.write i) := adj_of_mem e1
  have hwc : Path (physBuild P).edges (.write i) (.orig c) := by
    cases hk : k.isArg with
    | true => exact Path.head hwr (Path.single (adj_of_mem (hargs c k he hk)))
    | false =>
      have : k = .dep := by cases k <;> simp_all [Key.isArg]
      subst this
      exact Path.single (adj_of_mem (hdeps c he))
  refine ⟨C09_path_order hP h hwc rfl hc, ?_, ?_⟩
  · intro hk
    exact C09_path_order hP h (Path.single (adj_of_mem (hargs c k he hk))) rfl hc
  · intro hl
    exact C09_path_order hP h (Path.head how hwc) hl hc

/-- **Dependent sources.**  `z` an out-of-date source, `p` a direct logical predecessor of `z` that is either not
    registered or registered and out of date.  In every reachable engine state in which `read z` has begun, the node
    that makes `p` available (`tail p`: the call itself, or its write call) has completed — through the Barrier, or,
    once `_prune_literal_if_trivial` has removed the Barrier, through the pred × succ edges. -/
theorem C09_depsource {P : Input} (hP : P.WF) {cfg : Engine.Cfg} {s : Engine.St}
    (h : Engine.Reach (engineGraph P) cfg s) {z p : Nat} {k : Key}
    (hreg : P.regOf z = some true) (hst : P.isStale z = true) (he : (⟨p, z, k⟩ : LEdge) ∈ P.edges)
    (hp : ∀ s', P.regOf p = some s' → P.isStale p = true)
    (hcall : (P.tail p).isLit P = false) (hz : code (.read z) ∈ s.begun) : code (P.tail p) ∈ s.okd := by
  have h1 := edge_to_tail he hp (fun _ _ => hst)
  have ht : P.tail z = .barrier z := by simp [Input.tail, hreg, Input.W]
  rw [ht] at h1
  have h2 : Adj (physBuild P).edges (.barrier z) (.read z) := by
    have := W_to_read hreg hst
    rwa [W_of_regOf hreg] at this
  exact C09_path_order hP h (Path.cons h1 h2) hcall hz

/-- The same through a chain of logical edges `q → … → z` whose intermediate nodes are out of date whenever they
    are registered (e.g. producer call → ordering-token literal → dependent source): the call `q` has run. -/
theorem C09_depsource_chain {P : Input} (hP : P.WF) {cfg : Engine.Cfg} {s : Engine.St}
    (h : Engine.Reach (engineGraph P) cfg s) {z q : Nat}
    (hreg : P.regOf z = some true) (hst : P.isStale z = true)
    (hreach : Cache.Reach P.toLPlan q z) (hne : q ≠ z)
    (hall : ∀ x, Cache.Reach P.toLPlan q x → ∀ s', P.regOf x = some s' → P.isStale x = true)
    (hcall : (P.tail q).isLit P = false) (hz : code (.read z) ∈ s.begun) : code (P.tail q) ∈ s.okd := by
  rcases tail_chain hreach hall with h0 | h1
  · exact absurd h0 hne
  · have ht : P.tail z = .barrier z := by simp [Input.tail, hreg, Input.W]
    rw [ht] at h1
    have h2 : Adj (physBuild P).edges (.barrier z) (.read z) := by
      have := W_to_read hreg hst
      rwa [W_of_regOf hreg] at this
    exact C09_path_order hP h (Path.cons h1 h2) hcall hz

/-- **Everything downstream of a rebuilt value is rebuilt, after it.**  Let the stale set be the one the stale check
    computes from some store state `w` and `fresh_time` `F` (model of `_get_stale_nodes`, Model/Cache.lean).  If `i` is
    registered and out of date and `j` is `i` or a descendant of `i` (argument or plain-dependency edges), then `j` is
    out of date; and if moreover `i` and `j ≠ i` are stored calls, then in every reachable engine state in which the
    write of `j` has begun, the write of `i` has completed. -/
theorem C09_downstream_stale {P : Input} (hP : P.WF) (w : Cache.World) (F : Option Int)
    (hS : ∀ x, P.isStale x = Cache.isStale P.toLPlan w F x) {i j : Nat}
    (hst : P.isStale i = true) (hreach : Cache.Reach P.toLPlan i j) :
    P.isStale j = true ∧
    ∀ {cfg : Engine.Cfg} {s : Engine.St}, Engine.Reach (engineGraph P) cfg s → i ≠ j →
      P.regOf i = some false → P.regOf j = some false → code (.write j) ∈ s.begun → code (.write i) ∈ s.okd := by
  have hdown : ∀ x, Cache.Reach P.toLPlan i x → P.isStale x = true := by
    intro x hx
    rw [hS] at hst ⊢
    exact Cache.stale_reach (toLPlan_wf hP) w F hst hx
  refine ⟨hdown j hreach, ?_⟩
  intro cfg s h hne hri hrj hb
  rcases tail_chain hreach (fun x hx _ _ => hdown x hx) with h0 | h1
  · exact absurd h0 hne
  · have hti : P.tail i = .write i := by simp [Input.tail, hri, Input.W]
    have htj : P.tail j = .write j := by simp [Input.tail, hrj, Input.W]
    rw [hti, htj] at h1
    exact C09_path_order hP h h1 rfl hb

/-- **Order, for any start node the engine knows.**  As `C09_path_order`, but the start `a` of the path may be a literal
    (a Barrier), provided it is still a node of the graph handed to the engine — i.e. it survived
    `_prune_literal_if_trivial` and has a predecessor (`prune_source_literals` drops the others). -/
theorem C09_path_order_kept {P : Input} (hP : P.WF) {cfg : Engine.Cfg} {s : Engine.St}
    (h : Engine.Reach (engineGraph P) cfg s) {a b : PN} (hab : Path (physBuild P).edges a b)
    (ha : code a ∈ (engineGraph P).nodes) (hb : code b ∈ s.begun) : code a ∈ s.okd := by
  have hwf : (engineGraph P).WF := Engine.ofEdges_wf _ _
  have hbn := Engine.C04_only_graph_nodes hwf h _ hb
  exact Engine.C01_transitive hwf h (engine_path' hP hab ha hbn) hb

/-- **The write chain** (the physical counterpart of hypothesis `hOrder` of `Cache.complete_run_correct`).
    `q`, `k` registered, `q ≠ k`, `q` a logical ancestor of `k` — `Cache.Reach P.toLPlan q k`: the reflexive-transitive
    closure of the logical edges (argument and plain-dependency edges alike), through unregistered nodes and through
    other registered nodes — and every registered node reachable from `q` out of date (`hall`; the stale check guarantees
    it as soon as `q` is out of date, see `C09_write_chain_of_stale_check`).  `W x` is `write x` for a stored node and
    `barrier x` for a source.  Then:

    1. the plan BEFORE pruning has a path `W q ⇝ W k`;
    2. the write call of a stored `k` is a node of the graph handed to the engine (it is required and it is a call);
    3. in every reachable engine state in which `W k` has begun:
       * if `q` is stored (not a source): `write q` has completed successfully;
       * if `q` is a source, `W q` is the Barrier LITERAL of `q`, and the engine graph gives exactly this:
         - when the Barrier is still a node of the engine graph (it was not removed by `_prune_literal_if_trivial` —
           it is kept iff `m·n > m+n` for its `m` predecessors and `n` successors — and it has a predecessor, so
           `prune_source_literals` did not drop it), it has completed;
         - whether or not it is, every CALL `a` with a path into the Barrier in the plan before pruning — the
           nodes `tail p` of the available predecessors `p` of `q`: their own call, or their write call — has
           completed (after pruning the ordering is carried by the pred × succ edges).
         A Barrier without any predecessor orders nothing and is dropped: an out-of-date pure source is not rewritten
         by the run at all (nothing in the physical plan writes it). -/
theorem C09_write_chain {P : Input} (hP : P.WF) {q k : Nat} {sq sk : Bool}
    (hq : P.regOf q = some sq) (hk : P.regOf k = some sk) (hne : q ≠ k)
    (hreach : Cache.Reach P.toLPlan q k)
    (hall : ∀ x, Cache.Reach P.toLPlan q x → ∀ s', P.regOf x = some s' → P.isStale x = true) :
    Path (physBuild P).edges (P.W q) (P.W k) ∧
    (sk = false → code (.write k) ∈ (engineGraph P).nodes) ∧
    ∀ {cfg : Engine.Cfg} {s : Engine.St}, Engine.Reach (engineGraph P) cfg s → code (P.W k) ∈ s.begun →
      (sq = false → code (.write q) ∈ s.okd) ∧
      (code (P.W q) ∈ (engineGraph P).nodes → code (P.W q) ∈ s.okd) ∧
      (∀ a : PN, a.isLit P = false → Path (physBuild P).edges a (P.W q) → code a ∈ s.okd) := by
  have hpath := write_chain_path hq hk hne hreach hall
  refine ⟨hpath, ?_, ?_⟩
  · intro hsk; subst hsk
    exact write_kept hP hk (hall k hreach _ hk)
  · intro cfg s h hb
    refine ⟨?_, ?_, ?_⟩
    · intro hsq; subst hsq
      have hW : P.W q = .write q := by simp [Input.W, hq]
      rw [hW] at hpath
      exact C09_path_order hP h hpath rfl hb
    · intro hn
      exact C09_path_order_kept hP h hpath hn hb
    · intro a ha hpa
      exact C09_path_order hP h (hpa.trans hpath) ha hb

/-- The same with the hypotheses of `hOrder`: the stale set is the one the stale check computes from a store state `w`
    and `fresh_time` `F`; `q` and `k` are registered, `q` is out of date (then so is `k`), `q ≠ k`, `q` is a logical
    ancestor of `k`.  In every reachable engine state in which the write call of a stored `k` has begun, the write call of
    a stored `q` has completed — so with modified times that increase with every write, `q` gets the earlier one. -/
theorem C09_write_chain_of_stale_check {P : Input} (hP : P.WF) (w : Cache.World) (F : Option Int)
    (hS : ∀ x, P.isStale x = Cache.isStale P.toLPlan w F x) {q k : Nat} {sq sk : Bool}
    (hq : P.regOf q = some sq) (hk : P.regOf k = some sk) (hne : q ≠ k)
    (hst : P.isStale q = true) (hreach : Cache.Reach P.toLPlan q k) :
    P.isStale k = true ∧
    Path (physBuild P).edges (P.W q) (P.W k) ∧
    (sk = false → code (.write k) ∈ (engineGraph P).nodes) ∧
    ∀ {cfg : Engine.Cfg} {s : Engine.St}, Engine.Reach (engineGraph P) cfg s → code (P.W k) ∈ s.begun →
      (sq = false → code (.write q) ∈ s.okd) ∧
      (code (P.W q) ∈ (engineGraph P).nodes → code (P.W q) ∈ s.okd) ∧
      (∀ a : PN, a.isLit P = false → Path (physBuild P).edges a (P.W q) → code a ∈ s.okd) := by
  have hdown : ∀ x, Cache.Reach P.toLPlan q x → P.isStale x = true := by
    intro x hx
    rw [hS] at hst ⊢
    exact Cache.stale_reach (toLPlan_wf hP) w F hst hx
  exact ⟨hdown k hreach, C09_write_chain hP hq hk hne hreach (fun x hx _ _ => hdown x hx)⟩

/-- **A store is read back only after its own write, and nothing else in the plan writes it.**
    For an out-of-date registered `i`, in every reachable engine state in which `read i` has begun: the write call of a
    stored `i` has completed; the Barrier of a source `i` has completed if it is still a node of the engine graph.
    And in the physical plan before pruning (hence in every sub-plan), for EVERY `i`: the store literal of `i` is an
    argument of `read i` and `write i` only; `write i` takes that literal and `orig i` and nothing else; there is at
    most one node `write i`; and there is none unless `i` is registered, not a source, and out of date.  So each store
    is written by at most its own write node, with the value of its own node.
    (The producers of dependent sources are USER calls that write a store as a side effect; they are outside this
    model — `C09_depsource` orders them before the read of the source.) -/
theorem C09_reads_after_own_write {P : Input} (hP : P.WF) (i : Nat) :
    (∀ {si : Bool}, P.regOf i = some si → P.isStale i = true →
      ∀ {cfg : Engine.Cfg} {s : Engine.St}, Engine.Reach (engineGraph P) cfg s → code (.read i) ∈ s.begun →
        (si = false → code (.write i) ∈ s.okd) ∧
        (code (P.W i) ∈ (engineGraph P).nodes → code (P.W i) ∈ s.okd)) ∧
    (∀ e ∈ (physBuild P).edges, e.src = .storeLit i →
      e = ⟨.storeLit i, .read i, .pos 0⟩ ∨ e = ⟨.storeLit i, .write i, .pos 0⟩) ∧
    (∀ e ∈ (physBuild P).edges, e.dst = .write i →
      e = ⟨.storeLit i, .write i, .pos 0⟩ ∨ e = ⟨.orig i, .write i, .pos 1⟩) ∧
    (physBuild P).nodes.count (.write i) ≤ 1 ∧
    (PN.write i ∈ (physBuild P).nodes → P.regOf i = some false ∧ P.isStale i = true) := by
  refine ⟨?_, fun e he hs => storeLit_out he hs, fun e he hd => write_in he hd, count_write hP i, ?_⟩
  · intro si hreg hst cfg s h hb
    have hadj : Path (physBuild P).edges (P.W i) (.read i) := Path.single (W_to_read hreg hst)
    refine ⟨?_, fun hn => C09_path_order_kept hP h hadj hn hb⟩
    intro hsi; subst hsi
    have hW : P.W i = .write i := by simp [Input.W, hreg]
    rw [hW] at hadj
    exact C09_path_order hP h hadj rfl hb
  · intro hm
    rcases mem_built_nodes.mp hm with ⟨j, _, hj⟩ | ⟨r, hr, hg⟩
    · cases hj
    · have hreg : P.regOf r.1 = some r.2 := regOf_of_mem hP (by cases r; exact hr)
      unfold Input.gadgetNodes at hg
      simp only [List.mem_append, List.mem_cons, List.not_mem_nil, or_false] at hg
      rcases hg with (hg | hg) | hg
      · cases hg
      · cases hg
      · split at hg
        · next hst =>
          simp only [List.mem_singleton] at hg
          split at hg
          · cases hg
          · next h2 =>
            simp only [PN.write.injEq] at hg; subst hg
            exact ⟨by rw [hreg]; simpa using h2, hst⟩
        · cases hg

/-- **The physical plan of a topologically numbered plan is acyclic** — before pruning, after `prune_plan`, and so
    is every sub-plan: `code` (rank `5·i + role`, roles ordered orig < storeLit < write < barrier < read) increases
    along every edge, including the pred × succ edges literal pruning adds. -/
theorem C09_phys_acyclic {P : Input} (hP : P.WF) :
    (∀ a b, Path (physBuild P).edges a b → code a < code b) ∧
    (∀ a b, Path (physFinal P).edges a b → code a < code b) ∧
    (∀ a, ¬ Path (physBuild P).edges a a) ∧ (∀ a, ¬ Path (physFinal P).edges a a) := by
  have h1 : ∀ a b, Path (physBuild P).edges a b → code a < code b := fun _ _ => rank_path code (built_rank hP)
  have h2 : ∀ a b, Path (physFinal P).edges a b → code a < code b := fun _ _ => rank_path code (final_rank hP)
  exact ⟨h1, h2, fun a h => Nat.lt_irrefl _ (h1 a a h), fun a h => Nat.lt_irrefl _ (h2 a a h)⟩

/-- The literal-pruning rule of the model is the inequality found in pruning.py, and the shape facts hold. -/
theorem C09_source_shape : Gen.Stale.facts.pruneLiteralShape = true ∧
    (∀ m n, Gen.Stale.keepLiteral m n = decide (m * n > m + n)) := by
  refine ⟨by decide, fun m n => rfl⟩

/-! ### What a node reads does not depend on WHEN it reads it

`Exec.execOrder` applies the effect of a node when the engine completes it.  The real code reads a call's arguments when
the call begins and a store somewhere between the begin and the end of its read node.  The three theorems below are about
EVERY reachable state in which the node has begun (completed or not): what it would read there is already its final,
from-scratch value — the writer of whatever a node reads completed before the node began, and nothing else writes it.  So
the moment of the access between `begin` and `finOk` is irrelevant, which is what collapsing a node's effect to its
completion assumes. -/

open Uberjob.Exec in
/-- A begun read-back node finds the from-scratch value of its stored value in the store, at every moment from its
    beginning on (for an out-of-date stored value: its write has completed and nothing else writes that store). -/
theorem C09_read_stable {P : Input} {w0 : Cache.World} {F : Option Int} {c0 : Int} (S : Setup P w0 F c0)
    {cfg : Engine.Cfg} {s : Engine.St} (h : Engine.Reach (engineGraph P) cfg s) {u : Nat}
    (hb : code (.read u) ∈ s.begun) :
    ((execOrder P (initX w0 c0) s.okd).w.content u).getD (.missing u) = Cache.FS P.toLPlan w0 u :=
  read_value S h (fun _ hh => hh) (okd_begun h) (xinv_reach S h) hb

open Uberjob.Exec in
/-- A begun user call finds the from-scratch values of its arguments in the result slots of its argument nodes — the
    read-back node of a stored argument (never the in-memory result of the argument's own call), the call itself for an
    unstored one — in argument order. -/
theorem C09_args_stable {P : Input} {w0 : Cache.World} {F : Option Int} {c0 : Int} (S : Setup P w0 F c0)
    {cfg : Engine.Cfg} {s : Engine.St} (h : Engine.Reach (engineGraph P) cfg s) {j : Nat}
    (hb : code (.orig j) ∈ s.begun) (hs : P.regOf j ≠ some true) :
    (argSrcs (physFinal P) (.orig j)) = (P.toLPlan.args j).map (argNode P) ∧
    Cache.V.app j ((argSrcs (physFinal P) (.orig j)).map ((execOrder P (initX w0 c0) s.okd).get P)) =
      Cache.FS P.toLPlan w0 j := by
  have I := xinv_reach S h
  exact ⟨by rw [argSrcs_final S.wf (begun_built S h (fun _ hh => hh) (okd_begun h) I hb).1, argSrcs_built], orig_value S h (fun _ hh => hh) (okd_begun h) I hb hs⟩

open Uberjob.Exec in
/-- A begun write node finds the from-scratch value of its stored value in the slot of the value's own call, and that is
    also what the call would compute from what its arguments give RIGHT NOW (`rawNow`): nothing upstream is out of date
    any more. -/
theorem C09_write_input_stable {P : Input} {w0 : Cache.World} {F : Option Int} {c0 : Int} (S : Setup P w0 F c0)
    {cfg : Engine.Cfg} {s : Engine.St} (h : Engine.Reach (engineGraph P) cfg s) {i : Nat}
    (hb : code (.write i) ∈ s.begun) :
    (execOrder P (initX w0 c0) s.okd).get P (.orig i) = Cache.FS P.toLPlan w0 i ∧
    Cache.rawNow P.toLPlan (execOrder P (initX w0 c0) s.okd).w i = Cache.FS P.toLPlan w0 i := by
  have I := xinv_reach S h
  obtain ⟨hri, hst⟩ := write_node_reg S.wf (begun_built S h (fun _ hh => hh) (okd_begun h) I hb).2
  exact ⟨write_arg_value S h (fun _ hh => hh) (okd_begun h) I hb hri hst, rawNow_value S h (fun _ hh => hh) (okd_begun h) I hb hri⟩

open Uberjob.Exec in
/-- **The value clause, for arbitrary normalising stores** (`Model/ExecNorm.lean`: `read()` returns `nm i (what was written)`).
    In every reachable state of every schedule, a user call `j` that has completed was applied to the normalised
    from-scratch values of its arguments, and for every argument `u` that is a stored call that value is `nm u (raw result of
    u)` and is what store `u` holds at that moment: downstream calls consume what `read()` returns after the write, never
    the value the call of `u` returned. -/
theorem C09_consumer_gets_readback {P : Input} (nm : Nat → Cache.V → Cache.V) {w0 w0' : Cache.World} {F : Option Int}
    {c0 : Int} (S : Setup P w0 F c0) (H : Start P nm w0 w0')
    {cfg : Engine.Cfg} {s : Engine.St} (h : Engine.Reach (engineGraph P) cfg s) {j : Nat}
    (hj : code (.orig j) ∈ s.okd) (hl : P.lits.contains j = false) (hs : P.regOf j ≠ some true) :
    let xn := execOrderN P nm (initX w0' c0) s.okd
    xn.slot (.orig j) = some (.app j ((P.toLPlan.args j).map (fun u => P.N nm (Cache.FS P.toLPlan w0 u)))) ∧
    ∀ u ∈ P.toLPlan.args j, P.regOf u = some false →
      xn.w.content u = some (P.N nm (Cache.FS P.toLPlan w0 u)) ∧
      P.N nm (Cache.FS P.toLPlan w0 u) =
        nm u (.app u ((P.toLPlan.args u).map (fun q => P.N nm (Cache.FS P.toLPlan w0 q)))) :=
  consumer_readback S h (xinv_reach S h) (sim_reach S H h) hj hl hs

open Uberjob.Exec in
/-- ... and, node by node, the run with normalising stores is the `normalise`-image of the plain run (same modified times,
    every read-back and every rewritten store normalised, every call result the same function of normalised arguments). -/
theorem C09_norm_simulation {P : Input} (nm : Nat → Cache.V → Cache.V) {w0 w0' : Cache.World} {F : Option Int}
    {c0 : Int} (S : Setup P w0 F c0) (H : Start P nm w0 w0')
    {cfg : Engine.Cfg} {s : Engine.St} (h : Engine.Reach (engineGraph P) cfg s) :
    Sim P nm s.okd (execOrder P (initX w0 c0) s.okd) (execOrderN P nm (initX w0' c0) s.okd) :=
  sim_reach S H h

/-! ### Non-vacuity -/

/-- source 0 → stored call 1 → call 3 (output), and 1 →dep literal 2 →dep 3; everything but the source out of date. -/
def exP : Input :=
  ⟨[0, 1, 2, 3], [2], [⟨0, 1, .pos 0⟩, ⟨1, 3, .pos 0⟩, ⟨1, 2, .dep⟩, ⟨2, 3, .dep⟩], [(0, true), (1, false)], [1, 2, 3],
   some 3⟩

theorem exP_wf : exP.WF := by
  constructor <;> decide

example : exP.regOf 1 = some false ∧ exP.isStale 1 = true := by decide
example : (physFinal exP).nodes = [.orig 1, .orig 3, .storeLit 0, .read 0, .storeLit 1, .read 1, .write 1] := by decide
/-- the literal 2 (one predecessor `write 1`, one successor) has been pruned and replaced by `write 1 → orig 3` -/
example : (⟨.write 1, .orig 3, .dep⟩ : Edge PN) ∈ (physFinal exP).edges ∧
    (⟨.write 1, .orig 2, .dep⟩ : Edge PN) ∈ (physBuild exP).edges ∧ PN.orig 2 ∉ (physFinal exP).nodes := by decide
example : (⟨.read 1, .orig 3, .pos 0⟩ : Edge PN) ∈ (physFinal exP).edges ∧
    (⟨.orig 1, .orig 3, .pos 0⟩ : Edge PN) ∉ (physFinal exP).edges := by decide
/-- the graph handed to the engine (store literals dropped): `orig 3` waits for `read 1` and `write 1` -/
example : (engineGraph exP).nodes = [5, 15, 4, 9, 7] ∧ (engineGraph exP).preds 15 = [9, 7] := by decide

/-- a schedule of the engine model on this plan (one worker) that reaches a state in which the consumer `orig 3`
    (node 15) has begun: the hypotheses of `C09_order` are satisfiable, and there `orig 1`, `write 1`, `read 1`
    (5, 7, 9) have completed -/
def exRun : List Engine.Label :=
  [.spawn, .get 0 (.node 4), .check 0, .finOk 0, .release 0 5, .taskDone 0,
   .get 0 (.node 5), .check 0, .finOk 0, .release 0 7, .taskDone 0,
   .get 0 (.node 7), .check 0, .finOk 0, .release 0 9, .release 0 15, .taskDone 0,
   .get 0 (.node 9), .check 0, .finOk 0, .release 0 15, .taskDone 0,
   .get 0 (.node 15), .check 0]
example : (Engine.run? (engineGraph exP) ⟨1, some 0⟩ (Engine.init (engineGraph exP)) exRun).map
    (fun s => (s.begun, s.okd)) = some ([4, 5, 7, 9, 15], [4, 5, 7, 9]) := by decide
example : (⟨1, 3, .pos 0⟩ : LEdge) ∈ exP.edges ∧ code (.orig 3) = 15 ∧ code (.write 1) = 7 ∧ code (.read 1) = 9 := by decide

/-- out-of-date dependent source 2 depending on the stored call 1 and registered BEFORE it; consumer 3. -/
def exD : Input :=
  ⟨[0, 2, 1, 3], [], [⟨0, 1, .pos 0⟩, ⟨1, 2, .dep⟩, ⟨2, 3, .pos 0⟩], [(0, true), (2, true), (1, false)], [1, 2, 3],
   some 3⟩

example : exD.WF := by constructor <;> decide
/-- the Barrier (one predecessor, one successor) is pruned; `write 1 → read 2` replaces `write 1 → barrier 2 → read 2` -/
example : (⟨.write 1, .read 2, .dep⟩ : Edge PN) ∈ (physFinal exD).edges ∧ PN.barrier 2 ∉ (physFinal exD).nodes ∧
    (⟨.write 1, .barrier 2, .dep⟩ : Edge PN) ∈ (physBuild exD).edges := by decide
example : exD.tail 1 = .write 1 ∧ (exD.tail 1).isLit exD = false := by decide
example : exD.SrcDeps := by unfold Input.SrcDeps; decide
/-- the write chain from the stored call 1 to the dependent source 2 (`W 2` is its Barrier); here the Barrier has one
    predecessor and one successor, is pruned, and the ordering `write 1 → read 2` is carried by the pred × succ edge -/
example : exD.W 1 = .write 1 ∧ exD.W 2 = .barrier 2 ∧ code (exD.W 2) ∉ (engineGraph exD).nodes ∧
    code (.write 1) ∈ (engineGraph exD).nodes ∧ (engineGraph exD).preds (code (.read 2)) = [code (.write 1)] := by decide
example : Cache.Reach exD.toLPlan 1 2 := Cache.Reach.step (Cache.Reach.refl 1) (by decide)
example : exD.regOf 1 = some false ∧ exD.regOf 2 = some true ∧ exD.isStale 1 = true ∧ exD.isStale 2 = true := by decide
/-- the loop, processing the source 2 BEFORE the stored call 1: `orig 1 → barrier 2` is created first and then moved to
    `write 1 → barrier 2` when entry 1 is processed (its live out-edges include it) -/
example : (⟨.write 1, .barrier 2, .dep⟩ : Edge PN) ∈ (planWithValueStores exD).edges ∧
    (⟨.orig 1, .barrier 2, .dep⟩ : Edge PN) ∉ (planWithValueStores exD).edges ∧
    (⟨.orig 1, .barrier 2, .dep⟩ : Edge PN) ∈
      ((exD.reg.take 2).foldl (addValueStore exD) (baseGraph exD)).edges := by decide

end Uberjob.Phys
