import UberjobModel.Lemmas.Traceback
/-!
# C19 — a failure is attributed to the user line that created the failing symbolic call

Python stack = `List Frame`, innermost first.  `getStackFrame`, `recurse`, `render` are built from the truncation
test, the depth decrement, `MAX_TRACEBACK_DEPTH`, the default `initial_depth`, the marker/header texts and the
frame format GENERATED from `src/uberjob/_util/traceback.py`; `siteDirect` / `passesFrame` / `facts` are generated
from `_plan.py`, `_registry.py`, `_run.py`, `_transformations/caching.py`, `_errors.py`, `run_physical.py`.
Every statement quantifies over stacks of EVERY depth and arbitrary frame contents.

Not modelled (trusted, see DESIGN §5): that `inspect.currentframe()` / `f_back` / `f_lineno` describe the Python
stack; which node the engine reports first (that is C06).
-/
namespace Uberjob.Traceback
open Uberjob.Gen.Traceback

/-- **Shape of a capture.**  For every stack and every `initial_depth = i` that does not run off the stack:
    the captured chain is the first `min (d, D+1)` frames after dropping `i` (`d` = frames that remain,
    `D = MAX_TRACEBACK_DEPTH`), followed by the truncation marker iff more than `D+1` remain, else by `None`. -/
theorem C19_capture_shape_at (stack : List Frame) (i : Nat) (h : i ≤ stack.length) :
    getStackFrame stack i
      = some (Chain.ofList ((stack.drop i).take (maxDepth + 1))
                (if maxDepth + 1 < stack.length - i then Chain.truncated else Chain.none)) := by
  unfold getStackFrame
  rw [walk_eq, if_pos h, Option.map_some, recurse_nat, List.length_drop]

/-- The same for the default `initial_depth` (what every call site uses). -/
theorem C19_capture_shape (stack : List Frame) (h : initialDepth ≤ stack.length) :
    getStackFrame stack
      = some (Chain.ofList ((stack.drop initialDepth).take (maxDepth + 1))
                (if maxDepth + 1 < stack.length - initialDepth then Chain.truncated else Chain.none)) :=
  C19_capture_shape_at stack initialDepth h

/-- Number of frames kept: `min (d, D+1)`. -/
theorem C19_capture_length (stack : List Frame) (i : Nat) :
    ((stack.drop i).take (maxDepth + 1)).length = min (maxDepth + 1) (stack.length - i) := by
  simp

/-- The error branch of the totalised model: walking `i` links back from a stack with fewer than `i` frames
    raises (`None.f_back`) — it does not silently produce a chain. -/
theorem C19_capture_off_stack (stack : List Frame) (i : Nat) (h : stack.length < i) :
    getStackFrame stack i = Option.none := by
  unfold getStackFrame
  rw [walk_eq, if_neg (by omega)]; rfl

/-- **Head of a capture.**  In `Plan.call / gather / unpack`, `Registry.add / source` and `run` the first captured
    frame is the frame of the API function's CALLER (the user's line), whatever the stack below it; the capture
    never fails there.  (`u = []` cannot occur in Python; then both sides are `none`.) -/
theorem C19_capture_head (s : Site) (g api : Frame) (u : List Frame) :
    ∃ c, captureAt s g api u = some c ∧ c.head? = u.head? := by
  unfold captureAt
  rw [siteDirect_all, if_pos rfl, C19_capture_shape _ (by simp [initialDepth_eq])]
  refine ⟨_, rfl, ?_⟩
  cases u with
  | nil => simp [initialDepth_eq, Chain.ofList, Chain.head?]
  | cons f rest => simp [initialDepth_eq, ofList_cons, Chain.head?]

/-- The whole chain captured at an API site, in terms of the caller's stack `u` only. -/
theorem C19_capture_user_frames (s : Site) (g api : Frame) (u : List Frame) :
    captureAt s g api u
      = some (Chain.ofList (u.take (maxDepth + 1)) (if maxDepth + 1 < u.length then Chain.truncated else Chain.none)) := by
  unfold captureAt
  rw [siteDirect_all, if_pos rfl, C19_capture_shape _ (by simp [initialDepth_eq])]
  simp [initialDepth_eq]

/-- **Order of the rendered message.**  For a captured chain none of whose frames lies in IPython's core:
    header, then `... truncated` (first!) iff the chain was truncated, then the frames OUTERMOST FIRST. -/
theorem C19_render_order (fs : List Frame) (more : Bool) (h : ∀ f ∈ fs, cut f = false) :
    renderLines (Chain.ofList fs (if more then Chain.truncated else Chain.none))
      = headerText :: ((if more then [truncatedText] else [])
          ++ fs.reverse.map (fun f => formatFrame f.path f.line f.name)) := by
  unfold renderLines
  rw [collect_ofList_clean fs _ h]
  cases more <;> simp [collect, formatEntry, Function.comp_def]

/-- The IPython cut: rendering stops BEFORE the first frame whose path contains `/IPython/core/`; that frame,
    everything outside it and the truncation marker are not shown. -/
theorem C19_render_cut (pre post : List Frame) (f : Frame) (tail : Chain)
    (h : ∀ x ∈ pre, cut x = false) (hf : cut f = true) :
    renderLines (Chain.ofList (pre ++ f :: post) tail)
      = headerText :: pre.reverse.map (fun f => formatFrame f.path f.line f.name) := by
  unfold renderLines
  rw [collect_ofList_cut pre post f tail h hf]
  simp [formatEntry, Function.comp_def]

/-- `render_symbolic_traceback` joins exactly these lines with newlines, and `str(CallError)` is the fixed first
    line followed by it. -/
theorem C19_render_join (c : Chain) (fqn : String) :
    render c = "\n".intercalate (renderLines c)
      ∧ callErrorMessage fqn c
          = "\n".intercalate ["An exception was raised in a symbolic call to " ++ fqn ++ ".", render c] :=
  ⟨rfl, rfl⟩

/-- Capture and render composed: what the user reads for a symbolic call created at API site `s` with caller stack
    `u` — the first `min (|u|, D+1)` frames of `u`, outermost first, preceded by `... truncated` iff `|u| > D+1`. -/
theorem C19_rendered_user_frames (s : Site) (g api : Frame) (u : List Frame) (h : ∀ f ∈ u, cut f = false) :
    ∃ c, captureAt s g api u = some c ∧
      renderLines c = headerText :: ((if maxDepth + 1 < u.length then [truncatedText] else [])
          ++ (u.take (maxDepth + 1)).reverse.map (fun f => formatFrame f.path f.line f.name)) := by
  refine ⟨_, C19_capture_user_frames s g api u, ?_⟩
  have h' : ∀ f ∈ u.take (maxDepth + 1), cut f = false := fun f hf => h f (List.mem_of_mem_take hf)
  have := C19_render_order (u.take (maxDepth + 1)) (decide (maxDepth + 1 < u.length)) h'
  simpa using this

/-! ## Inheritance: every symbolic call created on behalf of a user line carries that line's capture -/

/-- `plan.call`: the call itself and every gather call created for its (keyword) arguments. -/
theorem C19_inherit_call (g api : Frame) (u : List Frame) (fresh : Chain) (args kwargs : List Val) :
    ∃ sf cs, captureAt .planCall g api u = some sf ∧ planCall g api u fresh args kwargs = some cs ∧
      cs ≠ [] ∧ ∀ c ∈ cs, c.frame = sf := by
  obtain ⟨sf, hsf, _⟩ := C19_capture_head .planCall g api u
  exact ⟨sf, callCalls .user sf fresh args kwargs, hsf, by simp [planCall, hsf], by simp [callCalls],
    callCalls_frames _ _ _ _ _⟩

/-- `plan.gather`: every (nested) gather call. -/
theorem C19_inherit_gather (g api : Frame) (u : List Frame) (fresh : Chain) (v : Val) :
    ∃ sf cs, captureAt .planGather g api u = some sf ∧ planGather g api u fresh v = some cs ∧
      ∀ c ∈ cs, c.frame = sf := by
  obtain ⟨sf, hsf, _⟩ := C19_capture_head .planGather g api u
  exact ⟨sf, (gatherV sf fresh v).2, hsf, by simp [planGather, hsf], (gather_frames sf fresh).1 v⟩

/-- `plan.unpack`: the `unpack` call, the gather calls of its iterable and all `length` getitem calls share ONE capture
    (taken once, in `unpack` itself). -/
theorem C19_inherit_unpack (g api : Frame) (u : List Frame) (fresh : Chain) (it : Val) (n : Nat) :
    ∃ sf cs, captureAt .planUnpack g api u = some sf ∧ planUnpack g api u fresh it n = some cs ∧
      (cs.filter (·.kind = .getitem)).length = n ∧ ∀ c ∈ cs, c.frame = sf := by
  obtain ⟨sf, hsf, _⟩ := C19_capture_head .planUnpack g api u
  refine ⟨sf, callCalls .unpack (pick .unpackTuple sf fresh) fresh [it, .leaf] []
      ++ (List.range n).flatMap (fun _ => callCalls .getitem (pick .unpackGetitem sf fresh) fresh [.node, .leaf] []),
    hsf, by simp [planUnpack, hsf], ?_, ?_⟩
  · obtain ⟨r1, h1, hr1⟩ := callCalls_kinds .unpack (pick .unpackTuple sf fresh) fresh [it, .leaf] []
    have h2 : callCalls .getitem (pick .unpackGetitem sf fresh) fresh [.node, .leaf] []
        = [⟨.getitem, pick .unpackGetitem sf fresh⟩] := by
      simp [callCalls, gatherL, gatherV, pick, passesFrame_all]
    have h3 : r1.filter (·.kind = .getitem) = [] := by
      rw [List.filter_eq_nil_iff]; intro c hc; simp [hr1 c hc]
    rw [h1, h2, List.filter_append, List.filter_cons, h3]
    simp [filter_flatMap_const_length]
  · intro c hc
    simp only [List.mem_append, List.mem_flatMap] at hc
    rcases hc with hc | ⟨_, _, hc⟩
    · simpa [pick, passesFrame_all] using callCalls_frames _ _ _ _ _ c hc
    · simpa [pick, passesFrame_all] using callCalls_frames _ _ _ _ _ c hc

/-- `registry.source`: the placeholder call and the registry entry carry the capture taken in `source`. -/
theorem C19_inherit_source (g api : Frame) (u : List Frame) (fresh : Chain) :
    ∃ sf cs e, captureAt .registrySource g api u = some sf ∧ registrySource g api u fresh = some (cs, e) ∧
      e.frame = sf ∧ e.isSource = true ∧ ∀ c ∈ cs, c.frame = sf := by
  obtain ⟨sf, hsf, _⟩ := C19_capture_head .registrySource g api u
  refine ⟨sf, callCalls .source (pick .sourceCall sf fresh) fresh [] [], ⟨true, pick .sourceEntry sf fresh⟩, hsf,
    by simp [registrySource, hsf], by simp [pick, passesFrame_all], rfl, ?_⟩
  intro c hc
  simpa [pick, passesFrame_all] using callCalls_frames _ _ _ _ _ c hc

/-- `registry.add`: the entry carries the capture taken in `add`. -/
theorem C19_inherit_add (g api : Frame) (u : List Frame) :
    ∃ sf e, captureAt .registryAdd g api u = some sf ∧ registryAdd g api u = some e ∧ e.frame = sf ∧ e.isSource = false := by
  obtain ⟨sf, hsf, _⟩ := C19_capture_head .registryAdd g api u
  exact ⟨sf, ⟨false, sf⟩, hsf, by simp [registryAdd, hsf], rfl, rfl⟩

/-- Store `read` / `write` calls inserted by `_add_value_store` carry the registry entry's frame — i.e. the
    `registry.add` line for a write or read-back, the `registry.source` line for a source read; a read call always
    exists, a write call exactly when the entry is out of date and not a source. -/
theorem C19_inherit_store (e : RegEntry) (fresh : Chain) (isStale : Bool) :
    (∀ c ∈ storeCalls e fresh isStale, c.frame = e.frame) ∧
    (∃ c ∈ storeCalls e fresh isStale, c.kind = .storeRead) ∧
    ((∃ c ∈ storeCalls e fresh isStale, c.kind = .storeWrite) ↔ (isStale = true ∧ e.isSource = false)) := by
  refine ⟨?_, ?_, ?_⟩
  · intro c hc
    simp only [storeCalls, List.mem_append] at hc
    rcases hc with hc | hc
    · simpa [pick, passesFrame_all] using callCalls_frames _ _ _ _ _ c hc
    · split at hc
      · simpa [pick, passesFrame_all] using callCalls_frames _ _ _ _ _ c hc
      · simp at hc
  · exact ⟨⟨.storeRead, pick .callNode (pick .storeCall e.frame fresh) fresh⟩, by simp [storeCalls, callCalls], rfl⟩
  · cases isStale <;> cases hs : e.isSource <;>
      simp [storeCalls, callCalls, gatherL, gatherV, hs]

/-- `run(plan, output=…)`: the implicit gather of the output is attributed to the line that called `run`. -/
theorem C19_inherit_output (g api : Frame) (u : List Frame) (fresh : Chain) (v : Val) :
    ∃ sf cs, captureAt .run g api u = some sf ∧ runOutput g api u fresh v = some cs ∧ ∀ c ∈ cs, c.frame = sf := by
  obtain ⟨sf, hsf, _⟩ := C19_capture_head .run g api u
  exact ⟨sf, (gatherV sf fresh v).2, hsf, by simp [runOutput, hsf], (gather_frames sf fresh).1 v⟩

/-! ## The error path -/

/-- `CallError.call` is the node whose processing failed, and the message is rendered from ITS frame — provided
    that node is a `Call` (always so in the run phase: `process` touches only calls). -/
theorem C19_error_call (n : PNode) (h : n.isCall = true) : runRaises n = .callError n := by
  simp [runRaises, h]

/-- Finding F5 (kept as a known finding): the stale check queries the modified time of EVERY registered node; when
    the node is a `Literal`, a failing query reaches `CallError(e.node)` with a node that has neither `fn` nor
    `stack_frame`, and `run` raises `AttributeError` instead of a `CallError`. -/
theorem C19_registered_literal_defect (fr : Chain) : runRaises ⟨false, fr⟩ = .attributeError := rfl

/-- The source still has the shape the model assumes (who captures, who hands the frame on, the error path). -/
theorem C19_facts : facts.faithful = true ∧ (∀ s, siteDirect s = true) ∧ (∀ n, passesFrame n = true) :=
  ⟨by decide, siteDirect_all, passesFrame_all⟩

/-! ## Non-vacuity: concrete stacks shallower than, equal to and deeper than the limit -/

private def fr (n : Nat) : Frame := ⟨"f", "p", n⟩
private def gF : Frame := ⟨"get_stack_frame", "traceback.py", 85⟩
private def aF : Frame := ⟨"call", "_plan.py", 79⟩

private def frs (n : Nat) : List Frame := (List.range n).map fr

-- shallower than the limit: everything is kept, no marker
example : getStackFrame (gF :: aF :: frs maxDepth) = some (Chain.ofList (frs maxDepth) .none) := by decide
-- exactly `MAX_TRACEBACK_DEPTH + 1` frames: everything is kept, no marker
example : getStackFrame (gF :: aF :: frs (maxDepth + 1)) = some (Chain.ofList (frs (maxDepth + 1)) .none) := by decide
-- deeper: the first `MAX_TRACEBACK_DEPTH + 1` frames, then the marker
example : getStackFrame (gF :: aF :: frs (maxDepth + 2)) = some (Chain.ofList (frs (maxDepth + 1)) .truncated) := by decide
example : getStackFrame (gF :: aF :: frs (maxDepth + 5)) = some (Chain.ofList (frs (maxDepth + 1)) .truncated) := by decide
example : (captureAt .registryAdd gF aF (frs 7)).bind Chain.head? = some (fr 0) := by decide
example : getStackFrame [gF] = Option.none := by decide
example : getStackFrame [gF, aF] = some .none := by decide
example : collect (.frame (fr 1) (.frame (fr 2) .truncated)) = [.frame (fr 1), .frame (fr 2), .truncated] := by decide
example : cut ⟨"run_code", "/usr/lib/python3/site-packages/IPython/core/interactiveshell.py", 3508⟩ = true := by decide
example : collect (.frame (fr 1) (.frame ⟨"run_code", "/x/IPython/core/i.py", 3⟩ (.frame (fr 2) .truncated))) = [.frame (fr 1)] := by
  decide
example : (planCall gF aF [fr 1, fr 2] .truncated [.cont [.node, .cont [.leaf]], .leaf] [.cont [.cont [.node]]]).map (·.length)
    = some 4 := by decide
example : (storeCalls ⟨false, .frame (fr 7) .none⟩ .truncated true).map (·.kind) = [.storeRead, .storeWrite] := by decide

end Uberjob.Traceback
