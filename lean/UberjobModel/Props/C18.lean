import UberjobModel.Lemmas.Time
import UberjobModel.Lemmas.TimeCpython
/-!
# C18 — staleness depends only on instants, not on time zone or naive/aware form

Quantified over: every process time zone `tz` (an arbitrary offset function, DST jumps included) that satisfies
PEP 495's round-trip contract `TZ.Lawful` (an explicit hypothesis; CPython's own algorithms are shown to satisfy
it for every one-transition zone, `C18_cpython_lawful`, and for every transition table with transitions at least a week
apart, `C18_cpython_lawful_tables`); every datetime representation (naive local with any
admissible fold bit, aware with any UTC offset) of `fresh_time` and of every store's modified time, missing
values (`None`) included; every plan shape (`staleFold` over any node list).

The theorems are about the handling the *current* source has (`Gen.TimeConv.naiveHandling`, regenerated on every
check): they go through only while that is `.convertLocal`.  The two counter-model theorems document the
repaired finding F3 (the former handling `.keepNaive`).
-/
namespace Uberjob.Time
open Uberjob.Gen.Stale (staleCond safeMax)
open Uberjob.Gen.TimeConv (Handling naiveHandling sites)

/-- The source converts naive datetimes as local time (`value.astimezone(utc)` for every non-None value). -/
theorem C18_handling : naiveHandling = .convertLocal := by decide

/-- `fresh_time` is converted once before any comparison, the result of the only `get_modified_time` query is
    converted before it is compared or stored, the ancestor maximum is taken over stored (converted) values, and
    there is no other comparison of times in `_get_stale_nodes` — re-decided against the current source. -/
theorem C18_sites : sites.allConverted = true := by decide

/-- What a file store reports (`datetime.fromtimestamp(i)`) denotes `i`; so does any aware rendering of `i`. -/
theorem C18_fromTimestamp_denotes (tz : TZ) (i : Int) : Denotes tz (fromTimestamp tz i) i :=
  ⟨rfl, Or.inl rfl⟩

theorem C18_aware_denotes (tz : TZ) (off i : Int) : Denotes tz (awareAt off i) i := by
  show i + off - off = i; omega

/-- The conversion the source applies returns exactly the denoted instant, for every lawful zone and every
    representation. -/
theorem C18_conv {tz : TZ} (hl : tz.Lawful) {d : DT} {i : Int} (h : Denotes tz d i) : conv tz d = i :=
  conv_of_denotes hl h

/-- Order and equality of converted values are order and equality of instants: for every lawful `tz`, every two
    datetimes `a`, `b` (naive or aware, independently) denoting `i`, `j`. -/
theorem C18_order {tz : TZ} (hl : tz.Lawful) {a b : DT} {i j : Int} (ha : Denotes tz a i) (hb : Denotes tz b j) :
    (conv tz a < conv tz b ↔ i < j) ∧ (conv tz a = conv tz b ↔ i = j) := by
  rw [C18_conv hl ha, C18_conv hl hb]; exact ⟨Iff.rfl, Iff.rfl⟩

/-- The stale condition evaluated on the converted values equals the same condition on the instants, for every
    combination of representations of the modified time, the ancestor time and `fresh_time` (`None` included)
    and for sources and non-sources alike. -/
theorem C18_decision {tz : TZ} (hl : tz.Lawful) {m : DT} {mi : Int} {a f : Option DT} {ai fi : Option Int}
    (hm : Denotes tz m mi) (ha : DenotesOpt tz a ai) (hf : DenotesOpt tz f fi) (isSource : Bool) :
    staleCond (conv tz m) (a.map (conv tz)) (f.map (conv tz)) isSource = staleCond mi ai fi isSource := by
  have e : ∀ {x : Option DT} {xi : Option Int}, DenotesOpt tz x xi → x.map (conv tz) = xi := by
    intro x xi h
    cases x <;> cases xi <;> simp only [DenotesOpt] at h <;> first | rfl | exact congrArg some (C18_conv hl h)
  rw [C18_conv hl hm, e ha, e hf]

/-- Whole stale check: for any plan (nodes in processing order, any predecessor lists, registered or not, source
    or not, stored value present or missing) the result of `_get_stale_nodes` on the datetimes equals its result
    on the instants they denote (`inst`), whatever the representations and the zone. -/
theorem C18_fold_decision {tz : TZ} (hl : tz.Lawful) (fresh : Option DT) (nodes : List (Node DT)) (inst : DT → Int)
    (hd : ∀ d ∈ occurring fresh nodes, Denotes tz d (inst d)) :
    staleFold (conv tz) fresh nodes = staleFold id (fresh.map inst) (nodes.map (Node.map inst)) := by
  obtain ⟨h1, h2⟩ := map_congr_occurring (f := conv tz) (g := inst) fresh nodes (fun d hm => C18_conv hl (hd d hm))
  rw [staleFold_map, h1, h2]

/-- Hence two runs — in different zones, with different representations — that see the same instants decide
    the same. -/
theorem C18_zone_independent {tz₁ tz₂ : TZ} (hl₁ : tz₁.Lawful) (hl₂ : tz₂.Lawful)
    (fresh₁ fresh₂ : Option DT) (nodes₁ nodes₂ : List (Node DT)) (inst₁ inst₂ : DT → Int)
    (hd₁ : ∀ d ∈ occurring fresh₁ nodes₁, Denotes tz₁ d (inst₁ d))
    (hd₂ : ∀ d ∈ occurring fresh₂ nodes₂, Denotes tz₂ d (inst₂ d))
    (hf : fresh₁.map inst₁ = fresh₂.map inst₂)
    (hn : nodes₁.map (Node.map inst₁) = nodes₂.map (Node.map inst₂)) :
    staleFold (conv tz₁) fresh₁ nodes₁ = staleFold (conv tz₂) fresh₂ nodes₂ := by
  rw [C18_fold_decision hl₁ fresh₁ nodes₁ inst₁ hd₁, C18_fold_decision hl₂ fresh₂ nodes₂ inst₂ hd₂, hf, hn]

/-- The maximum in the stale condition always exists (it includes `modified_time`), so the totalised `none`
    branch of `optGt` plays no role in the decision. -/
theorem C18_max_defined (mt : Int) (anc fresh : Option Int) : (safeMax [some mt, anc, fresh]).isSome = true := by
  cases anc <;> cases fresh <;> simp [safeMax]

/-- CPython's own conversion algorithms (`_mktime`, fold detection of `fromtimestamp`, `astimezone` with its gap
    test) satisfy the contract in every zone with one offset change of less than a day — fall-back or
    spring-forward, at any instant. -/
theorem C18_cpython_lawful (T a b : Int) (h1 : -day < b - a) (h2 : b - a < day) :
    (TZ.cpython (oneOffset T a b)).Lawful :=
  cpython_one_lawful T a b h1 h2

/-- **... and in every zone with any number of transitions** given as a table (`tableOffset`: the offset before the first
    transition, then `(instant, offset from there on)` pairs): it suffices that consecutive transitions are at least seven
    days apart and that offsets and jumps are below 24 h (`Spaced`).  The algorithms probe the offset function only within
    three days of the instant they are about (`cpyDecode_local`, `cpyFold_local`, `cpyAstimezone_local`), where such a zone
    is a one-transition zone.  More generally for every offset function that is `LocallyOne`. -/
theorem C18_cpython_lawful_tables (base : Int) (trs : List (Int × Int)) (hb : -day < base ∧ base < day)
    (hs : Spaced base trs) : (TZ.table base trs).Lawful :=
  cpython_table_lawful base trs hb hs

theorem C18_cpython_lawful_local (off : Int → Int) (h : LocallyOne off) : (TZ.cpython off).Lawful :=
  cpython_local_lawful off h

/-- New York, 2023–2025, six transitions (spring forward in March, fall back in November): `Spaced`, hence lawful. -/
def newYork : List (Int × Int) :=
  [(1678604400000000, -4 * hour), (1699164000000000, -5 * hour), (1710054000000000, -4 * hour),
   (1730613600000000, -5 * hour), (1741503600000000, -4 * hour), (1762063200000000, -5 * hour)]
theorem C18_newYork_lawful : (TZ.table (-5 * hour) newYork).Lawful :=
  C18_cpython_lawful_tables _ _ (by decide) (by
    simp only [Spaced, newYork, List.mem_cons, List.not_mem_nil, or_false, forall_eq_or_imp, forall_eq,
      false_imp_iff, implies_true, and_true]
    simp only [day, hour]
    omega)

theorem C18_fixed_lawful (o : Int) : (TZ.fixed o).Lawful where
  roundTrip i := by show i + o - o = i; omega
  foldIgnored i f _ := by show i + o - o = i; omega

/-- A naive wall reading inside a spring-forward gap denotes no instant (such values are outside the property). -/
theorem C18_gap_undenoted (T a b w : Int) (f : Bool) (hlo : T + a ≤ w) (hhi : w < T + b) (i : Int) :
    ¬ Denotes (TZ.cpython (oneOffset T a b)) (.naive w f) i := by
  intro h
  have hw : w = i + oneOffset T a b i := h.1
  unfold oneOffset at hw
  split at hw <;> omega

/-! ## The repaired finding F3: the former handling (`.keepNaive`) violates the property -/

/-- Offset −4 h all year; a file store written at `i` (naive local) and an aware `fresh_time` one hour *before*
    it.  The instants say "up to date"; with the old handling the naive value compares smaller and the store is
    treated as out of date. -/
theorem C18_keepNaive_counterexample :
    ∃ (tz : TZ) (m f : DT) (i j : Int), tz.Lawful ∧ Denotes tz m i ∧ Denotes tz f j ∧ j < i ∧
      toNaiveUtc .keepNaive tz m < toNaiveUtc .keepNaive tz f ∧
      staleCond (toNaiveUtc .keepNaive tz m) none (some (toNaiveUtc .keepNaive tz f)) false = true ∧
      staleCond i none (some j) false = false :=
  ⟨TZ.fixed (-4 * hour), fromTimestamp (TZ.fixed (-4 * hour)) 1700000000000000,
    awareAt 0 (1700000000000000 - hour), 1700000000000000, 1700000000000000 - hour,
    C18_fixed_lawful _, C18_fromTimestamp_denotes _ _, C18_aware_denotes _ _ _, by decide, by decide, by decide,
    by decide⟩

/-- The zone of the second counterexample (`fallBack`: −4 h until 2024-11-03 06:00:00 UTC, −5 h afterwards, with
    CPython's algorithms) satisfies the contract. -/
theorem C18_fallBack_lawful : fallBack.Lawful :=
  C18_cpython_lawful _ _ _ (by decide) (by decide)

/-- The repeated hour: upstream written at 01:40 EDT (first pass), downstream 30 minutes later at 01:10 EST
    (second pass, `fold = 1`), both reported naive-local by file stores.  The instants say the downstream value
    is newer; with the old handling the fold bit is ignored, the upstream value compares newer and the downstream
    store is treated as out of date. -/
theorem C18_fold_counterexample :
    ∃ (up down : DT) (i j : Int), Denotes fallBack up i ∧ Denotes fallBack down j ∧ i < j ∧
      toNaiveUtc .keepNaive fallBack down < toNaiveUtc .keepNaive fallBack up ∧
      staleCond (toNaiveUtc .keepNaive fallBack down) (some (toNaiveUtc .keepNaive fallBack up)) none false = true ∧
      staleCond j (some i) none false = false :=
  ⟨fromTimestamp fallBack (1730613600000000 - 1200000000), fromTimestamp fallBack (1730613600000000 + 600000000),
    1730613600000000 - 1200000000, 1730613600000000 + 600000000,
    C18_fromTimestamp_denotes _ _, C18_fromTimestamp_denotes _ _, by decide, by decide, by decide, by decide⟩

/-! ## Non-vacuity: the hypotheses are satisfiable by a concrete zone with one fall-back transition -/

example : fallBack.Lawful := C18_fallBack_lawful

/-- the two passes through 01:10 local carry different fold bits and decode to instants one hour apart -/
example : fromTimestamp fallBack (1730613600000000 - 3000000000) = .naive 1730596200000000 false := by decide
example : fromTimestamp fallBack (1730613600000000 + 600000000) = .naive 1730596200000000 true := by decide
example : conv fallBack (.naive 1730596200000000 false) = 1730613600000000 - 3000000000 := by decide
example : conv fallBack (.naive 1730596200000000 true) = 1730613600000000 + 600000000 := by decide
/-- the conversion in force orders the repeated hour correctly (cf. `C18_fold_counterexample`) -/
example : conv fallBack (fromTimestamp fallBack (1730613600000000 - 1200000000))
    < conv fallBack (fromTimestamp fallBack (1730613600000000 + 600000000)) := by decide

/-- source (aware UTC) → call with a file store (naive, first pass of the repeated hour) → call with a file store
    (naive, second pass), aware `fresh_time` at +05:30 just before the first write: nothing is out of date;
    move `fresh_time` between the two writes: only the first store and its dependant are. -/
example : staleSet (conv fallBack) (some (awareAt 19800000000 (1730613600000000 - 1300000000)))
    [⟨[], some (true, some (awareAt 0 (1730613600000000 - 7200000000)))⟩,
     ⟨[0], some (false, some (fromTimestamp fallBack (1730613600000000 - 1200000000)))⟩,
     ⟨[1], some (false, some (fromTimestamp fallBack (1730613600000000 + 600000000)))⟩]
    = [false, false, false] := by decide
example : staleSet (conv fallBack) (some (awareAt 19800000000 (1730613600000000 - 600000000)))
    [⟨[], some (true, some (awareAt 0 (1730613600000000 - 7200000000)))⟩,
     ⟨[0], some (false, some (fromTimestamp fallBack (1730613600000000 - 1200000000)))⟩,
     ⟨[1], some (false, some (fromTimestamp fallBack (1730613600000000 + 600000000)))⟩]
    = [false, true, true] := by decide

end Uberjob.Time
