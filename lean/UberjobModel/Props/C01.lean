import UberjobModel.Lemmas.EnginePath
import UberjobModel.Lemmas.GraphWF
import UberjobModel.Lemmas.EngineExamples
import UberjobModel.Lemmas.PhysBuild
import UberjobModel.Lemmas.EngineRefine
/-!
# C01 — a call never starts before everything it depends on has finished successfully

Quantified over: every graph `g` (well-formed adjacency; parallel edges collapse to one distinct
predecessor / successor, exactly as `predecessor_count` and `graph.successors` see them), every worker
count, every `max_errors`, every outcome of every call (the label sequence chooses `finOk`/`finFail`),
every queue discipline (`get w i` takes ANY queued item) and every interleaving (`Reach` = any label
sequence accepted by `step?`, of any length).
-/
namespace Uberjob.Engine

/-- In every reachable state, every node whose function has been entered has all its direct
    predecessors in `okd` (their function returned normally, earlier in the same run). -/
theorem C01_direct {g : Graph} (hg : g.WF) {cfg : Cfg} {s : St} (h : Reach g cfg s) :
    ∀ x ∈ s.begun, ∀ p ∈ g.preds x, p ∈ s.okd :=
  fun _ hx => begun_preds_okd (inv_reach hg h) hx

/-- The same for transitive dependencies. -/
theorem C01_transitive {g : Graph} (hg : g.WF) {cfg : Cfg} {s : St} (h : Reach g cfg s)
    {p x : Nat} (hpx : Path g p x) (hx : x ∈ s.begun) : p ∈ s.okd :=
  begun_path_okd (inv_reach hg h) hpx hx

/-- A node is put in the ready queue (or beyond) only when all predecessors completed. -/
theorem C01_enqueued {g : Graph} (hg : g.WF) {cfg : Cfg} {s : St} (h : Reach g cfg s)
    {y : Nat} (hy : Item.node y ∈ s.queue) : ∀ p ∈ g.preds y, p ∈ s.okd := by
  intro p hp
  have hi := inv_reach hg h
  have : 1 ≤ cnt s y := by
    have := List.count_pos_iff.mpr hy
    simp only [cnt, qCount]; omega
  exact (hi.relOk p y (hi.ready y this p hp)).1

/-- The locked counter never underflows: a decrement always finds a positive value
    (so the Python `-= 1` never goes negative, and `== 0` is hit exactly once). -/
theorem C01_counter {g : Graph} (hg : g.WF) {cfg : Cfg} {s : St} (h : Reach g cfg s) :
    ∀ y, 2 ≤ g.predCount y → s.rem y + s.rel.countP (fun e => e.2 == y) = g.predCount y :=
  (inv_reach hg h).remOk


/-! ### The lock-protected block, step by step

In the model above the handling of a multi-parent successor — `with remaining_pred_count_lock:` decrement, test, `queue.put` —
is ONE step, and so is the failure bookkeeping under `failure_lock`.  `Model/EngineFine.lean` splits each block into five
steps (acquire; decrement, test, put — resp. count, set the first error, decide `stop` —; release), with every other thread
free to take any of its own steps in between (a second thread that wants the same lock waits; the two locks are independent).  `Lemmas/EngineRefine.lean` proves
that every reachable state of that finer model stands for a reachable state of the coarse one (`refine_reach`: the five steps
are `stutter, stutter, stutter, release, stutter`), so the safety theorems carry over — the reduction "lock-protected region
= one atomic step" is a theorem for this lock, not an assumption. -/

open Uberjob.EngineFine in
/-- **C01 in the fine model**: whatever the interleaving of the individual statements of the locked block with the other
    threads, a begun node has every direct and transitive predecessor completed OK, no node begins twice, and the locked
    decrement always finds a positive counter. -/
theorem C01_fine {g : Graph} (hg : g.WF) {cfg : Cfg} {s : St2} (h : Reach2 g cfg s) :
    (∀ x ∈ s.c.begun, ∀ p ∈ g.preds x, p ∈ s.c.okd) ∧
    (∀ p x, Path g p x → x ∈ s.c.begun → p ∈ s.c.okd) ∧
    s.c.begun.Nodup ∧
    (∀ r, s.lock = some r → r.stage = .acquired → 1 ≤ s.c.rem r.y) := by
  obtain ⟨hr, _⟩ := refine_reach hg h
  obtain ⟨_, _, _, _, _, hb, ho, _⟩ := abs_fields s
  refine ⟨?_, ?_, ?_, fun r hl hst => dec_positive hg h hl hst⟩
  · intro x hx p hp
    have := C01_direct hg hr x (by rw [hb]; exact hx) p hp
    rwa [ho] at this
  · intro p x hpx hx
    have := C01_transitive hg hr hpx (by rw [hb]; exact hx)
    rwa [ho] at this
  · have := (inv_reach hg hr).begunNodup
    rwa [hb] at this

/-- Non-vacuity: on the diamond (0 → 1, 2 → 3, with a parallel edge 1 ⇒ 3), worker 1 takes the lock for node 3 and
    decrements; worker 0 — which finished node 1 meanwhile — cannot take the lock (`acquire 0 3` is not enabled) until
    worker 1 has tested (not ready), skipped the put and released it; then worker 0's own block finds the counter at 0 and
    puts node 3. -/
def diamondFine : List EngineFine.Label2 :=
  [.base .spawn, .base .spawn, .base (.get 0 (.node 0)), .base (.check 0), .base (.finOk 0),
   .base (.release 0 1), .base (.release 0 2), .base (.taskDone 0),
   .base (.get 0 (.node 1)), .base (.get 1 (.node 2)), .base (.check 0), .base (.check 1), .base (.finOk 1),
   .acquire 1 3, .dec 1, .base (.finOk 0), .test 1, .put 1, .unlock 1,
   .acquire 0 3, .dec 0, .test 0, .put 0, .unlock 0]
example : ((EngineFine.run2? diamond ⟨2, some 0⟩ (EngineFine.init2 diamond) diamondFine).map
    (fun s => (s.c.queue, s.c.rem 3, s.lock.isSome, s.flock.isSome))) = some ([.node 3], 0, false, false) := by decide
example : ((EngineFine.run2? diamond ⟨2, some 0⟩ (EngineFine.init2 diamond)
    (diamondFine.take 16 ++ [.acquire 0 3])).isSome) = false := by decide

/-! ### The user's own dependency relation (registry-less run)

`uberjob.run(plan, output=…)` without a registry hands the engine `prune_source_literals(prune_plan(plan))`: the
ancestors of the output, with every trivial literal contracted (`_prune_literal_if_trivial`: a literal all of whose
out-edges are plain dependencies and with `m·n ≤ m+n` is replaced by the edges pred × succ — the inequality is the
regenerated `Gen.Stale.keepLiteral`).  `Phys.Input` with an empty registry is that pipeline. -/
open Uberjob.Phys in
/-- With an empty registry the plan before pruning is the user's plan itself. -/
theorem physBuild_noreg {P : Input} (hreg : P.reg = []) :
    (physBuild P).edges = P.edges.map (fun e => ⟨.orig e.src, .orig e.dst, e.key⟩) := by
  have hr : ∀ e : LEdge, P.rewire e = some ⟨.orig e.src, .orig e.dst, e.key⟩ := by
    intro e; simp [Input.rewire, Input.regOf, hreg]
  simp only [physBuild, hreg, List.flatMap_nil, List.append_nil]
  induction P.edges with
  | nil => rfl
  | cons e es ih => simp [List.filterMap_cons, hr, ih]

open Uberjob.Phys in
/-- **C01 on the user's own plan, including dependencies routed through literal nodes.**  `a` a call, `b` any node,
    `b` depends on `a` through one or more edges of the USER's plan (argument, keyword or `add_dependency` edges, through
    calls and literals alike).  In every reachable state of the engine on the graph the run actually examines (after
    ancestor pruning, contraction of trivial literals and removal of source literals): if `b` has begun, `a` has
    completed successfully — for every worker count, queue discipline and interleaving. -/
theorem C01_plan {P : Input} (hP : P.WF) (hreg : P.reg = []) {a b : Nat}
    (hab : Phys.Path (P.edges.map (fun e => (⟨.orig e.src, .orig e.dst, e.key⟩ : Phys.Edge PN))) (.orig a) (.orig b))
    (ha : P.lits.contains a = false) {cfg : Cfg} {s : St} (h : Reach (engineGraph P) cfg s)
    (hb : code (.orig b) ∈ s.begun) : code (.orig a) ∈ s.okd := by
  have hwf : (engineGraph P).WF := ofEdges_wf _ _
  have hbn : code (.orig b) ∈ (engineGraph P).nodes := begun_in_nodes hwf h _ hb
  rw [← physBuild_noreg hreg] at hab
  exact C01_transitive hwf h (engine_path hP hab (by simpa [PN.isLit] using ha) hbn) hb

/-- The contraction rule of the model is the one in pruning.py (regenerated on every run). -/
theorem C01_plan_shape : Gen.Stale.facts.pruneLiteralShape = true ∧ Gen.Stale.facts.pruneSourceLiteralsShape = true ∧
    Gen.Stale.facts.isSourceNodeShape = true ∧
    (∀ m n, Gen.Stale.keepLiteral m n = decide (m * n > m + n)) := ⟨by decide, by decide, by decide, fun _ _ => rfl⟩

/-- Non-vacuity of `C01_plan`: calls 0 and 1 → literal 2 → call 3 (all plain dependencies), output 3.  The literal
    (2 predecessors, 1 successor: 2·1 ≤ 2+1) is contracted; the engine graph makes call 3 wait for BOTH calls. -/
def junction : Phys.Input :=
  ⟨[0, 1, 2, 3], [2], [⟨0, 2, .dep⟩, ⟨1, 2, .dep⟩, ⟨2, 3, .dep⟩], [], [], some 3⟩
example : (Phys.engineGraph junction).nodes = [0, 5, 15] := by decide
example : (Phys.engineGraph junction).preds 15 = [0, 5] := by decide

/-! Non-vacuity: see `Lemmas/EngineExamples.lean` for the diamond with a parallel edge. -/
example : ((run? diamond ⟨2, some 0⟩ (init diamond) diamondRun).map (·.begun)) = some [0, 1, 2, 3] := by
  decide
example : diamond.WF := ofEdges_wf _ _
example : diamond.predCount 3 = 2 := by decide

end Uberjob.Engine
