import UberjobModel.Lemmas.EnginePath
import UberjobModel.Lemmas.GraphWF
import UberjobModel.Lemmas.EngineExamples
/-!
# C01 — a call never starts before everything it depends on has finished successfully

Quantified over: every graph `g` (well-formed adjacency; parallel edges collapse to one distinct
predecessor / successor, exactly as `predecessor_count` and `graph.successors` see them), every worker
count, every `max_errors`, every outcome of every call (the label sequence chooses `finOk`/`finFail`),
every queue discipline (`get w i` takes ANY queued item) and every interleaving (`Reach` = any label
sequence accepted by `step?`, of any length).
-/
namespace Uberjob.Engine

/-- In every reachable state, every node whose function has been entered has all its direct
    predecessors in `okd` (their function returned normally, earlier in the same run). -/
theorem C01_direct {g : Graph} (hg : g.WF) {cfg : Cfg} {s : St} (h : Reach g cfg s) :
    ∀ x ∈ s.begun, ∀ p ∈ g.preds x, p ∈ s.okd :=
  fun _ hx => begun_preds_okd (inv_reach hg h) hx

/-- The same for transitive dependencies. -/
theorem C01_transitive {g : Graph} (hg : g.WF) {cfg : Cfg} {s : St} (h : Reach g cfg s)
    {p x : Nat} (hpx : Path g p x) (hx : x ∈ s.begun) : p ∈ s.okd :=
  begun_path_okd (inv_reach hg h) hpx hx

/-- A node is put in the ready queue (or beyond) only when all predecessors completed. -/
theorem C01_enqueued {g : Graph} (hg : g.WF) {cfg : Cfg} {s : St} (h : Reach g cfg s)
    {y : Nat} (hy : Item.node y ∈ s.queue) : ∀ p ∈ g.preds y, p ∈ s.okd := by
  intro p hp
  have hi := inv_reach hg h
  have : 1 ≤ cnt s y := by
    have := List.count_pos_iff.mpr hy
    simp only [cnt, qCount]; omega
  exact (hi.relOk p y (hi.ready y this p hp)).1

/-- The locked counter never underflows: a decrement always finds a positive value
    (so the Python `-= 1` never goes negative, and `== 0` is hit exactly once). -/
theorem C01_counter {g : Graph} (hg : g.WF) {cfg : Cfg} {s : St} (h : Reach g cfg s) :
    ∀ y, 2 ≤ g.predCount y → s.rem y + s.rel.countP (fun e => e.2 == y) = g.predCount y :=
  (inv_reach hg h).remOk

/-! Non-vacuity: see `Lemmas/EngineExamples.lean` for the diamond with a parallel edge. -/
example : ((run? diamond ⟨2, some 0⟩ (init diamond) diamondRun).map (·.begun)) = some [0, 1, 2, 3] := by
  decide
example : diamond.WF := ofEdges_wf _ _
example : diamond.predCount 3 = 2 := by decide

end Uberjob.Engine
