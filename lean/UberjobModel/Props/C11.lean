import UberjobModel.Lemmas.FileStore
import UberjobModel.Lemmas.FileStoreStale
/-!
# C11 — file-backed stores replace their file atomically at every failure point

Everything below is about `storeWrite cfg sched spec valueIsNone stg tgt ops fs` (Model/FileStore.lean): the
`write` method of a store with shape `spec` (T1: `Gen.FileStore.stores`), target path `tgt`, staging path `stg`,
whose serialiser performs the block `ops` (a list, of any length and content, of `write chunk` calls and
possibly an error of its own — "a serialisation error part-way"), on an arbitrary file system `fs`, against an
arbitrary fault schedule `sched` (for every dynamic operation index: nothing / raise (3 exception classes,
any amount of partial effect) / die).  `cfg` = where `os.replace` sits, what the handler catches, whether it
removes and re-raises; `Cfg.gen` is the CURRENT source.  The single-fault formulation of DESIGN §4 is
`runOps … k fault = storeWrite … (single k fault) …`.

Assumed of the OS (DESIGN §5): `os.replace` is atomic and carries content and mtime; the clock is monotone.
Process death loses nothing that a completed operation did (buffering is below the level of the model: the
*staging* content after a death is unspecified in reality; no theorem here depends on it).
-/
namespace Uberjob.FileStore
open Uberjob.Gen.FileStore

section
variable {α : Type} [DecidableEq α]

/-- **Atomicity.**  For every store shape, block, file system, fault schedule (any number of faults, both kinds,
    any partial effect) and every configuration of the helper: afterwards the target holds either exactly what
    it held before (same content, same mtime — or is still absent), or the complete new value with an mtime not
    older than the start of the write; the latter only if the write returned normally. -/
theorem C11_atomic (cfg : Cfg) (sched : Sched) (spec : StoreSpec) (vn : Bool) {stg tgt : α} (hne : stg ≠ tgt)
    (ops : List BodyOp) (fs : FS α) :
    (storeWrite cfg sched spec vn stg tgt ops fs).fs.get tgt = fs.get tgt ∨
    (∃ t, fs.clock ≤ t ∧
      (storeWrite cfg sched spec vn stg tgt ops fs).fs.get tgt = some ⟨payload (effOps spec ops), t⟩ ∧
      noFail (effOps spec ops) = true ∧ (storeWrite cfg sched spec vn stg tgt ops fs).out = .ok) := by
  rcases storeWrite_cases cfg sched spec vn stg tgt ops fs with ⟨h, _⟩ | ⟨ho, hnf, fs1, t, _, ht, _, hfs⟩
  · exact .inl (h.frame tgt (fun e => hne e.symm))
  · exact .inr ⟨t, ht, by rw [hfs]; simp, hnf, ho⟩

/-- **The modified time changes exactly when the new value is in place** (well-formed file system: stored mtimes
    lie in the past of the monotone clock). -/
theorem C11_mtime (cfg : Cfg) (sched : Sched) (spec : StoreSpec) (vn : Bool) {stg tgt : α} (hne : stg ≠ tgt)
    (ops : List BodyOp) (fs : FS α) (hwf : fs.WF) :
    (storeWrite cfg sched spec vn stg tgt ops fs).fs.getModifiedTime tgt ≠ fs.getModifiedTime tgt ↔
    (∃ t, fs.clock ≤ t ∧
      (storeWrite cfg sched spec vn stg tgt ops fs).fs.get tgt = some ⟨payload (effOps spec ops), t⟩ ∧
      (storeWrite cfg sched spec vn stg tgt ops fs).out = .ok) := by
  constructor
  · intro h
    rcases C11_atomic cfg sched spec vn hne ops fs with h1 | ⟨t, ht, h1, _, ho⟩
    · exact absurd (by unfold FS.getModifiedTime; rw [h1]) h
    · exact ⟨t, ht, h1, ho⟩
  · rintro ⟨t, ht, h1, _⟩
    unfold FS.getModifiedTime
    rw [h1]
    cases hg : fs.get tgt with
    | none => simp
    | some f =>
      have := hwf tgt f hg
      simp only [Option.map_some, ne_eq, Option.some.injEq]
      omega

/-- **A write that raised, or during which the process died, left the target exactly as it was.** -/
theorem C11_failed_unchanged (cfg : Cfg) (sched : Sched) (spec : StoreSpec) (vn : Bool) {stg tgt : α} (hne : stg ≠ tgt)
    (ops : List BodyOp) (fs : FS α) (h : (storeWrite cfg sched spec vn stg tgt ops fs).out ≠ .ok) :
    (storeWrite cfg sched spec vn stg tgt ops fs).fs.get tgt = fs.get tgt := by
  rcases C11_atomic cfg sched spec vn hne ops fs with h1 | ⟨_, _, _, _, ho⟩
  · exact h1
  · exact absurd ho h

/-- **A write that returned normally put the complete new value in place and left no staging file** — for the
    current source, whose handler re-raises (`decide` on the regenerated flag). -/
theorem C11_completed (sched : Sched) (spec : StoreSpec) (vn : Bool) {stg tgt : α} (hne : stg ≠ tgt)
    (ops : List BodyOp) (fs : FS α) (h : (storeWrite Cfg.gen sched spec vn stg tgt ops fs).out = .ok) :
    (∃ t, fs.clock ≤ t ∧
      (storeWrite Cfg.gen sched spec vn stg tgt ops fs).fs.get tgt = some ⟨payload (effOps spec ops), t⟩) ∧
    (storeWrite Cfg.gen sched spec vn stg tgt ops fs).fs.get stg = none := by
  rcases storeWrite_cases Cfg.gen sched spec vn stg tgt ops fs with ⟨_, h2⟩ | ⟨_, _, fs1, t, _, ht, _, hfs⟩
  · have hrr : Cfg.gen.reraises = true := by decide
    rw [h2 h] at hrr; cases hrr
  · exact ⟨⟨t, ht, by rw [hfs]; simp⟩, by rw [hfs]; simp [hne]⟩

/-- No path other than the target and the staging path is ever touched. -/
theorem C11_others_untouched (cfg : Cfg) (sched : Sched) (spec : StoreSpec) (vn : Bool) (stg tgt : α)
    (ops : List BodyOp) (fs : FS α) (p : α) (hs : p ≠ stg) (ht : p ≠ tgt) :
    (storeWrite cfg sched spec vn stg tgt ops fs).fs.get p = fs.get p := by
  rcases storeWrite_cases cfg sched spec vn stg tgt ops fs with ⟨h, _⟩ | ⟨_, _, fs1, t, h1, _, _, hfs⟩
  · exact h.frame p hs
  · rw [hfs]; simp [hs, ht, h1.frame p hs]

/-- Well-formedness is preserved and the clock never goes back (so the theorems apply to the next write). -/
theorem C11_wf (cfg : Cfg) (sched : Sched) (spec : StoreSpec) (vn : Bool) (stg tgt : α)
    (ops : List BodyOp) (fs : FS α) (hwf : fs.WF) :
    (storeWrite cfg sched spec vn stg tgt ops fs).fs.WF ∧ fs.clock ≤ (storeWrite cfg sched spec vn stg tgt ops fs).fs.clock := by
  rcases storeWrite_cases cfg sched spec vn stg tgt ops fs with ⟨h, _⟩ | ⟨_, _, fs1, t, h1, _, hg, hfs⟩
  · exact ⟨h.wf hwf, h.clock⟩
  · have hw1 := h1.wf hwf
    have hlt := hw1 stg _ hg
    rw [hfs]
    refine ⟨WF.put_tick (fs := fs1.del stg) (WF.del hw1 stg) tgt _ (by simp only [clock_del]; exact Nat.le_of_lt hlt), ?_⟩
    have := h1.clock
    simp only [clock_tick, clock_put, clock_del]; omega

/-- **No staging file after an exception** (general form).  For the CURRENT source — rename inside the `try`,
    handler catching `BaseException`, removing (three `decide`s on regenerated flags) —, every store shape, block
    (including a serialiser error part-way), file system (including one with a stale staging file) and fault
    schedule: if the write raised, the staging path is absent afterwards, or no file operation was attempted at
    all (TouchFileStore's `TypeError`, `staged_write`'s `ValueError`: the file system is untouched) — provided the
    last operation (the clean-up `os.remove` itself) was not made to fail as well. -/
theorem C11_no_staging (sched : Sched) (spec : StoreSpec) (vn : Bool) (stg tgt : α) (ops : List BodyOp) (fs : FS α)
    (e : Exc) (h : (storeWrite Cfg.gen sched spec vn stg tgt ops fs).out = .raised e)
    (hq : sched ((storeWrite Cfg.gen sched spec vn stg tgt ops fs).next - 1) = .none) :
    (storeWrite Cfg.gen sched spec vn stg tgt ops fs).fs.get stg = none ∨
    ((storeWrite Cfg.gen sched spec vn stg tgt ops fs).trace = [] ∧ (storeWrite Cfg.gen sched spec vn stg tgt ops fs).fs = fs) := by
  unfold storeWrite at h hq ⊢
  split
  · exact .inr ⟨rfl, rfl⟩
  · rename_i hg
    simp only [hg] at h hq
    exact stagedWrite_no_staging (by decide) (by decide) (by decide) h hq

/-- **No staging file after an exception, single-fault form** (`runOps`, DESIGN §4): one fault of kind `raise`
    (any class — `OSError`, another `Exception`, `KeyboardInterrupt` —, any partial effect) at ANY index `k`
    of the operations of a write whose serialiser does not fail by itself. -/
theorem C11_no_staging_at (spec : StoreSpec) (stg tgt : α) (ops : List BodyOp) (fs : FS α) (k : Nat) (e : Exc) (p : Nat)
    (hnf : noFail (effOps spec ops) = true) (e' : Exc)
    (h : (runOps Cfg.gen spec stg tgt fs ops k (.raise e p)).out = .raised e') :
    (runOps Cfg.gen spec stg tgt fs ops k (.raise e p)).fs.get stg = none ∨
    ((runOps Cfg.gen spec stg tgt fs ops k (.raise e p)).trace = [] ∧ (runOps Cfg.gen spec stg tgt fs ops k (.raise e p)).fs = fs) := by
  unfold runOps storeWrite at h ⊢
  split
  · exact .inr ⟨rfl, rfl⟩
  · rename_i hg
    simp only [hg] at h
    unfold stagedWrite at h ⊢
    split
    · rename_i hw
      simp only [hw, if_true] at h
      left
      have := stagedWrite_no_staging_quiet (cfg := Cfg.gen) (sched := single k (.raise e p)) (stg := stg) (tgt := tgt)
        (ops := effOps spec ops) (fs := fs) (e := e') (by decide) (by decide) (by decide) hnf (quiet_single _ _)
        (by unfold stagedWrite; simpa using h)
      unfold stagedWrite at this
      simpa using this
    · exact .inr ⟨rfl, rfl⟩

/-- **No staging file after a serialisation error** (no injected fault; the block raises by itself anywhere). -/
theorem C11_no_staging_serialisation (spec : StoreSpec) (vn : Bool) (stg tgt : α) (ops : List BodyOp) (fs : FS α) (e : Exc)
    (h : (storeWrite Cfg.gen noFaults spec vn stg tgt ops fs).out = .raised e) :
    (storeWrite Cfg.gen noFaults spec vn stg tgt ops fs).fs.get stg = none ∨
    ((storeWrite Cfg.gen noFaults spec vn stg tgt ops fs).trace = [] ∧ (storeWrite Cfg.gen noFaults spec vn stg tgt ops fs).fs = fs) :=
  C11_no_staging noFaults spec vn stg tgt ops fs e h rfl

/-- **Without any fault the write completes** and performs exactly `open, write × n, close, replace` (the op
    list of DESIGN §3.7 that T2 compares with the observed calls). -/
theorem C11_ops (cfg : Cfg) (spec : StoreSpec) (vn : Bool) (stg tgt : α) (ops : List BodyOp) (fs : FS α)
    (hg : (spec.noneGuardFirst && !vn) = false) (hw : spec.writeMode.contains 'w' = true)
    (hnf : noFail (effOps spec ops) = true) :
    (storeWrite cfg noFaults spec vn stg tgt ops fs).out = .ok ∧
    (storeWrite cfg noFaults spec vn stg tgt ops fs).trace =
      [.open] ++ (effOps spec ops).map (fun _ => OpName.write) ++ [.close, .replace] := by
  unfold storeWrite
  simp only [hg, hw]
  exact stagedWrite_noFaults cfg stg tgt (effOps spec ops) fs hnf

/-- **A staging file left by a killed process does not disturb a later write**: two file systems that differ at
    most in what lies at the staging path lead — for every configuration, store, block and fault schedule — to
    the same outcome, the same operations, and the same content of every other path (in particular the target). -/
theorem C11_stale_staging (cfg : Cfg) (sched : Sched) (spec : StoreSpec) (vn : Bool) (stg tgt : α) (ops : List BodyOp)
    {a b : FS α} (h : AgreeOff stg a b) :
    RSame (AgreeOff stg) (storeWrite cfg sched spec vn stg tgt ops a) (storeWrite cfg sched spec vn stg tgt ops b) := by
  unfold storeWrite
  split
  · exact ⟨h, rfl, rfl, rfl⟩
  · exact stagedWrite_agreeOff cfg sched _ stg tgt _ h

/-- … in particular the next unfaulted write over a stale staging file completes, installs the new value and
    leaves no staging file, whatever the junk was. -/
theorem C11_stale_staging_next_write (spec : StoreSpec) (vn : Bool) {stg tgt : α} (hne : stg ≠ tgt) (ops : List BodyOp)
    (fs : FS α) (junk : File)
    (hg : (spec.noneGuardFirst && !vn) = false) (hw : spec.writeMode.contains 'w' = true)
    (hnf : noFail (effOps spec ops) = true) :
    (storeWrite Cfg.gen noFaults spec vn stg tgt ops (fs.put stg junk)).out = .ok ∧
    (∃ t, (storeWrite Cfg.gen noFaults spec vn stg tgt ops (fs.put stg junk)).fs.get tgt
        = some ⟨payload (effOps spec ops), t⟩) ∧
    (storeWrite Cfg.gen noFaults spec vn stg tgt ops (fs.put stg junk)).fs.get stg = none := by
  have h1 := (C11_ops Cfg.gen spec vn stg tgt ops (fs.put stg junk) hg hw hnf).1
  obtain ⟨⟨t, _, h2⟩, h3⟩ := C11_completed noFaults spec vn hne ops (fs.put stg junk) h1
  exact ⟨h1, ⟨t, h2⟩, h3⟩

/-- … and reads never look at the staging path (every store's `read` opens `self.path` only — T1). -/
theorem C11_stale_staging_read {stg tgt : α} (hne : stg ≠ tgt) (fs : FS α) (junk : File) :
    (fs.put stg junk).read tgt = fs.read tgt ∧ (fs.put stg junk).getModifiedTime tgt = fs.getModifiedTime tgt := by
  have : tgt ≠ stg := fun e => hne e.symm
  simp [FS.read, FS.getModifiedTime, this]

/-- **`staged_write_path` with an arbitrary block**: whatever the user's block did — as long as it touched the
    staging path only — the target afterwards is what it was, or exactly the file the block left at the staging
    path (and then the block had completed and the helper returned normally). -/
theorem C11_staged_write_path (cfg : Cfg) (sched : Sched) {stg tgt : α} (hne : stg ≠ tgt) (fs : FS α) (body : R α)
    (hb : Evolves stg fs body.fs) :
    (stagedPath cfg sched stg tgt body).fs.get tgt = fs.get tgt ∨
    (body.out = .ok ∧ (stagedPath cfg sched stg tgt body).out = .ok ∧
      ∃ f, body.fs.get stg = some f ∧ (stagedPath cfg sched stg tgt body).fs.get tgt = some f ∧
        (stagedPath cfg sched stg tgt body).fs.get stg = none) := by
  rcases stagedPath_cases cfg sched stg tgt body with ⟨h, _⟩ | ⟨h1, h2, f, hf, hfs⟩
  · exact .inl ((hb.trans h).frame tgt (fun e => hne e.symm))
  · exact .inr ⟨h1, h2, f, hf, by rw [hfs]; simp, by rw [hfs]; simp [hne]⟩

/-- **`staged_write`** (the helper itself, any mode string): same statement as for the stores. -/
theorem C11_staged_write (cfg : Cfg) (sched : Sched) (modeHasW : Bool) {stg tgt : α} (hne : stg ≠ tgt)
    (ops : List BodyOp) (fs : FS α) :
    (stagedWrite cfg sched modeHasW stg tgt ops fs).fs.get tgt = fs.get tgt ∨
    (∃ t, fs.clock ≤ t ∧ (stagedWrite cfg sched modeHasW stg tgt ops fs).fs.get tgt = some ⟨payload ops, t⟩ ∧
      modeHasW = true ∧ noFail ops = true ∧ (stagedWrite cfg sched modeHasW stg tgt ops fs).out = .ok) := by
  rcases stagedWrite_cases cfg sched modeHasW stg tgt ops fs with ⟨h, _⟩ | ⟨ho, hw, hnf, fs1, t, _, ht, _, hfs⟩
  · exact .inl (h.frame tgt (fun e => hne e.symm))
  · exact .inr ⟨t, ht, by rw [hfs]; simp, hw, hnf, ho⟩

end

/-! ## the five stores, as read from the current source -/

/-- All five store classes go through `staged_write` with a mode containing `"w"`; exactly the store whose block
    is `pass` (TouchFileStore) has the `value is not None → TypeError` guard, and has it before any file
    operation.  Hence every theorem above applies to each of them non-vacuously (`spec` ranges over these). -/
theorem C11_stores :
    Gen.FileStore.stores.length = 5 ∧
    ∀ spec ∈ Gen.FileStore.stores, spec.writeMode.contains 'w' = true ∧ (spec.noneGuardFirst = (spec.body == .nothing)) := by
  decide

/-- The current source has the rename inside the `try`, catches `BaseException`, removes and re-raises. -/
theorem C11_gen_shape : Cfg.gen = ⟨true, true, true, true⟩ := by decide

/-- The staging path differs from the target path (the suffix is not empty). -/
theorem C11_staging_ne (p : String) : p ++ Gen.FileStore.stagingSuffix ≠ p := by
  intro h
  have h1 := congrArg String.length h
  have h2 : Gen.FileStore.stagingSuffix.length ≠ 0 := by decide
  rw [String.length_append] at h1
  omega

/-! ## finding F2 (repaired by 98bd2d0) and the `except Exception` mutant, as counter-models -/

/-- **F2**: with `os.replace` AFTER the `try` (the source before 98bd2d0), an `OSError` of the rename leaves the
    staging file behind — the negation of `C11_no_staging_at` for that configuration (`k` = the rename). -/
theorem C11_staging_leak_witness :
    ∃ (ops : List BodyOp) (k : Nat),
      let r := runOps Cfg.beforeF2 textFileStore (1 : Nat) 0 ⟨[], 0⟩ ops k (.raise .osError 0)
      noFail ops = true ∧ r.out = .raised .osError ∧ r.fs.get 1 = some ⟨[104, 105], 1⟩ ∧ r.trace ≠ [] :=
  ⟨[.write [104, 105]], 3, by decide⟩

/-- A handler that catches only `Exception` leaves the staging file behind on `KeyboardInterrupt`. -/
theorem C11_except_exception_witness :
    let r := runOps ⟨true, false, true, true⟩ binaryFileStore (1 : Nat) 0 ⟨[], 0⟩ [.write [7]] 1 (.raise .baseOnly 0)
    r.out = .raised .baseOnly ∧ (r.fs.get 1).isSome = true := by decide

/-! ## non-vacuity -/

example : exFS.WF := by
  intro p f h
  simp only [exFS, FS.get, lookup] at h
  split at h
  · cases h; decide
  · split at h
    · cases h; decide
    · cases h

-- unfaulted: new value in place, mtime changed, no staging file, the other file untouched
example : (storeWrite Cfg.gen noFaults jsonFileStore true 1 0 exOps exFS).out = .ok := by decide
example : (storeWrite Cfg.gen noFaults jsonFileStore true 1 0 exOps exFS).fs.get 0 = some ⟨[91, 49, 44, 93], 13⟩ := by decide
example : (storeWrite Cfg.gen noFaults jsonFileStore true 1 0 exOps exFS).fs.get 1 = none := by decide
example : (storeWrite Cfg.gen noFaults jsonFileStore true 1 0 exOps exFS).trace = writeOps [[91], [49, 44], [93]] := by decide
-- an `OSError` at every index 0 … 5 (open, 3 writes, close, replace): old value, old mtime, no staging file
example : ∀ k ∈ [0, 1, 2, 3, 4, 5],
    let r := runOps Cfg.gen jsonFileStore 1 0 exFS exOps k (.raise .osError 1)
    r.out = .raised .osError ∧ r.fs.get 0 = some ⟨[1, 2], 3⟩ ∧ r.fs.get 1 = none := by decide
-- death at every index: old value; the staging file stays (from index 1 on)
example : ∀ k ∈ [1, 2, 3, 4, 5],
    let r := runOps Cfg.gen jsonFileStore 1 0 exFS exOps k (.die 0)
    r.out = .died ∧ r.fs.get 0 = some ⟨[1, 2], 3⟩ ∧ (r.fs.get 1).isSome = true := by decide
-- a serialisation error after two chunks
example : let r := storeWrite Cfg.gen noFaults jsonFileStore true 1 0 [.write [91], .write [49], .fail .exception] exFS
    r.out = .raised .exception ∧ r.fs.get 0 = some ⟨[1, 2], 3⟩ ∧ r.fs.get 1 = none ∧
    r.trace = [.open, .write, .write, .close, .remove] := by decide
-- TouchFileStore: a value that is not None raises before any file operation; None creates the empty file
example : let r := storeWrite Cfg.gen noFaults touchFileStore false 1 0 [] exFS
    r.out = .raised .exception ∧ r.trace = [] := by decide
example : (storeWrite Cfg.gen noFaults touchFileStore true 1 0 [] exFS).fs.get 0 = some ⟨[], 10⟩ := by decide

end Uberjob.FileStore
