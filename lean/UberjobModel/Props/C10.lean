import UberjobModel.Lemmas.EngineInv2
import UberjobModel.Lemmas.EngineExamples
import UberjobModel.Lemmas.Retry
/-!
# C10 — run limits: max_workers and max_errors (engine part)

`runningCount s` = number of workers inside `fn`.  Both the call functions of the physical plan and the
store operations are `fn` of some node, and the stale check is a separate engine instance whose
`workers` is `stale_check_max_workers`.
-/
namespace Uberjob.Engine
open Uberjob.Gen.Engine

/-- Never more than `worker_count` calls execute at the same time. -/
theorem C10_workers {g : Graph} {cfg : Cfg} (hw : 1 ≤ cfg.workers) {s : St} (h : Reach g cfg s) :
    runningCount s ≤ cfg.workers :=
  running_le (inv2_reach hw h)

/-- Never more threads than `worker_count`. -/
theorem C10_pool {g : Graph} {cfg : Cfg} (hw : 1 ≤ cfg.workers) {s : St} (h : Reach g cfg s) :
    s.ws.length ≤ cfg.workers :=
  ws_le (inv2_reach hw h)

/-- With `max_errors = k` at most `k + worker_count` calls fail, in every schedule. -/
theorem C10_errors_bound {g : Graph} {cfg : Cfg} (hw : 1 ≤ cfg.workers) {s : St} (h : Reach g cfg s)
    {k : Nat} (hk : cfg.maxErr = some k) : s.failed.length ≤ k + cfg.workers := by
  have hi := inv2_reach hw h
  have := hi.errBound k hk
  rw [← hi.errsLen]
  split at this <;> omega

/-- While fewer than `k + 1` calls have failed and nobody interrupted, `stop` is not set — so new calls
    keep being started (the converse direction of the bound). -/
theorem C10_no_early_stop {g : Graph} {cfg : Cfg} (hw : 1 ≤ cfg.workers) {s : St} (h : Reach g cfg s)
    (hc : s.coord.past = false) (hlt : ∀ k, cfg.maxErr = some k → s.failed.length ≤ k) : s.stop = false := by
  have hi := inv2_reach hw h
  cases hs : s.stop with
  | false => rfl
  | true =>
    rcases hi.stopWhy hs with h1 | ⟨k, hk, h2⟩
    · rw [hc] at h1; cases h1
    · have := hlt k hk; rw [← hi.errsLen] at this; omega

/-- With `max_errors = None` the engine never stops on errors. -/
theorem C10_none {g : Graph} {cfg : Cfg} (hw : 1 ≤ cfg.workers) {s : St} (h : Reach g cfg s)
    (hn : cfg.maxErr = none) (hc : s.coord.past = false) : s.stop = false :=
  C10_no_early_stop hw h hc (fun k hk => by rw [hn] at hk; cases hk)

/-- Parallelism is not restricted by anything but the pool size: a worker that is idle can always take any
    ready item, whatever the other workers are doing (no guard of `get` mentions another worker). -/
theorem C10_parallel {g : Graph} {cfg : Cfg} {s : St} {w : Nat} {i : Item}
    (hw : s.ws[w]? = some W.idle) (hq : i ∈ s.queue) : (step? g cfg s (.get w i)).isSome := by
  simp [step?, hw, hq]

/-- … and having taken it, it starts the call unless `stop` is set. -/
theorem C10_parallel_begin {g : Graph} {cfg : Cfg} {s : St} {w x : Nat}
    (hw : s.ws[w]? = some (W.held (.node x))) (hs : s.stop = false) :
    ∃ s', step? g cfg s (.check w) = some s' ∧ s'.ws[w]? = some (W.running x) := by
  have hlt : w < s.ws.length := (List.getElem?_eq_some_iff.mp hw).1
  simp only [step?, hw, hs]
  refine ⟨_, rfl, ?_⟩
  simp [setW, hlt]

example : (run? diamond ⟨2, some 0⟩ (init diamond) (diamondRun.take 12)).map runningCount = some 2 := by decide

/-! ## retry = n  (`create_retry`, with loop bound, last-attempt test and exception class regenerated from retry.py)

`script j` is what the j-th call of the decorated function does.  The same wrapper is applied to call functions, to
store `read`/`write` (they are calls of the physical plan) and to `get_modified_time` (facts in `Gen.Retry.facts`). -/

open Uberjob.Retry in
/-- At most `n` attempts, at least one, stopping at the first success (or first non-`Exception`); the result is that
    attempt's result. -/
theorem C10_retry_attempts {V E : Type} (n : Nat) (hn : 1 ≤ n) (script : Nat → Outcome V E) :
    ∃ run, retryLoop (n : Int) script = some run ∧ run.attempts = min n (firstStop script n 0 + 1)
      ∧ run.res = final (script (min (n - 1) (firstStop script n 0))) :=
  retry_attempts n hn script

open Uberjob.Retry in
theorem C10_retry_bounds {V E : Type} (n : Nat) (hn : 1 ≤ n) (script : Nat → Outcome V E) :
    ∃ run, retryLoop (n : Int) script = some run ∧ 1 ≤ run.attempts ∧ run.attempts ≤ n ∧ run.res ≠ .returnedNone :=
  retry_attempts_le n hn script

open Uberjob.Retry in
/-- An eventual success (after `m < n` failing attempts) is a success: the value of that attempt is returned. -/
theorem C10_retry_first_success {V E : Type} (n : Nat) (script : Nat → Outcome V E) (m : Nat) (v : V) (hm : m < n)
    (hpre : ∀ j, j < m → ∃ e, script j = Outcome.exc e) (hok : script m = .ok v) :
    retryLoop (n : Int) script = some ⟨.returned v, m + 1⟩ :=
  retry_first_success n script m v hm hpre hok

open Uberjob.Retry in
/-- When all `n` attempts fail, the exception reported is the one of the LAST attempt. -/
theorem C10_retry_last_exception {V E : Type} (n : Nat) (hn : 1 ≤ n) (script : Nat → Outcome V E) (e : E)
    (hall : ∀ j, j < n → ∃ e', script j = Outcome.exc e') (hlast : script (n - 1) = Outcome.exc e) :
    retryLoop (n : Int) script = some ⟨.raised .exc e, n⟩ :=
  retry_last_exception n hn script e hall hlast

open Uberjob.Retry in
/-- Only `Exception`s are retried: a `BaseException` (KeyboardInterrupt, SystemExit) surfaces at once. -/
theorem C10_retry_base_exception {V E : Type} (n : Nat) (script : Nat → Outcome V E) (m : Nat) (e : E)
    (hm : m < n) (hpre : ∀ j, j < m → ∃ e', script j = Outcome.exc e') (hb : script m = Outcome.baseExc e) :
    retryLoop (n : Int) script = some ⟨.raised .baseExc e, m + 1⟩ :=
  retry_base_exception_not_retried n script m e hm hpre hb

open Uberjob.Retry in
theorem C10_retry_one_is_identity {V E : Type} (script : Nat → Outcome V E) :
    createRetry 1 = .identity ∧ retryLoop 1 script = some ⟨final (script 0), 1⟩ :=
  retry_one_is_identity script

/-- `retry` reaches call functions, store reads/writes and modified-time queries; custom decorators pass through. -/
theorem C10_retry_sites : Uberjob.Gen.Retry.facts.faithful = true := Uberjob.Retry.facts_faithful

end Uberjob.Engine
