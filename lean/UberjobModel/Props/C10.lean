import UberjobModel.Lemmas.EngineInv2
import UberjobModel.Lemmas.EngineExamples
import UberjobModel.Lemmas.Retry
import UberjobModel.Lemmas.EngineComplete
import UberjobModel.Lemmas.EnginePath
import UberjobModel.Lemmas.EngineQ
/-!
# C10 — run limits: max_workers and max_errors (engine part)

`runningCount s` = number of workers inside `fn`.  Both the call functions of the physical plan and the
store operations are `fn` of some node, and the stale check is a separate engine instance whose
`workers` is `stale_check_max_workers`.
-/
namespace Uberjob.Engine
open Uberjob.Gen.Engine

/-- Never more than `worker_count` calls execute at the same time. -/
theorem C10_workers {g : Graph} {cfg : Cfg} (hw : 1 ≤ cfg.workers) {s : St} (h : Reach g cfg s) :
    runningCount s ≤ cfg.workers :=
  running_le (inv2_reach hw h)

/-- Never more threads than `worker_count`. -/
theorem C10_pool {g : Graph} {cfg : Cfg} (hw : 1 ≤ cfg.workers) {s : St} (h : Reach g cfg s) :
    s.ws.length ≤ cfg.workers :=
  ws_le (inv2_reach hw h)

/-- With `max_errors = k` at most `k + worker_count` calls fail, in every schedule. -/
theorem C10_errors_bound {g : Graph} {cfg : Cfg} (hw : 1 ≤ cfg.workers) {s : St} (h : Reach g cfg s)
    {k : Nat} (hk : cfg.maxErr = some k) : s.failed.length ≤ k + cfg.workers := by
  have hi := inv2_reach hw h
  have := hi.errBound k hk
  rw [← hi.errsLen]
  split at this <;> omega

/-- While fewer than `k + 1` calls have failed and nobody interrupted, `stop` is not set — so new calls
    keep being started (the converse direction of the bound). -/
theorem C10_no_early_stop {g : Graph} {cfg : Cfg} (hw : 1 ≤ cfg.workers) {s : St} (h : Reach g cfg s)
    (hc : s.coord.past = false) (hlt : ∀ k, cfg.maxErr = some k → s.failed.length ≤ k) : s.stop = false := by
  have hi := inv2_reach hw h
  cases hs : s.stop with
  | false => rfl
  | true =>
    rcases hi.stopWhy hs with h1 | ⟨k, hk, h2⟩
    · rw [hc] at h1; cases h1
    · have := hlt k hk; rw [← hi.errsLen] at this; omega

/-- With `max_errors = None` the engine never stops on errors. -/
theorem C10_none {g : Graph} {cfg : Cfg} (hw : 1 ≤ cfg.workers) {s : St} (h : Reach g cfg s)
    (hn : cfg.maxErr = none) (hc : s.coord.past = false) : s.stop = false :=
  C10_no_early_stop hw h hc (fun k hk => by rw [hn] at hk; cases hk)

/-- Parallelism is not restricted by anything but the pool size: a worker that is idle can always take any
    ready item, whatever the other workers are doing (no guard of `get` mentions another worker). -/
theorem C10_parallel {g : Graph} {cfg : Cfg} {s : St} {w : Nat} {i : Item}
    (hw : s.ws[w]? = some W.idle) (hq : i ∈ s.queue) : (step? g cfg s (.get w i)).isSome := by
  simp [step?, hw, hq]

/-- … and having taken it, it starts the call unless `stop` is set. -/
theorem C10_parallel_begin {g : Graph} {cfg : Cfg} {s : St} {w x : Nat}
    (hw : s.ws[w]? = some (W.held (.node x))) (hs : s.stop = false) :
    ∃ s', step? g cfg s (.check w) = some s' ∧ s'.ws[w]? = some (W.running x) := by
  have hlt : w < s.ws.length := (List.getElem?_eq_some_iff.mp hw).1
  simp only [step?, hw, hs]
  refine ⟨_, rfl, ?_⟩
  simp [setW, hlt]

example : (run? diamond ⟨2, some 0⟩ (init diamond) (diamondRun.take 12)).map runningCount = some 2 := by decide

open Uberjob.EngineQ in
/-- `C10_parallel` for threads that SLEEP when they find nothing to do (`Model/EngineQ.lean`): a sleeping worker cannot take
    anything, but in every reachable state at least `min (queued items) (idle workers)` idle workers are awake (never went to
    sleep, or have been notified), and each of them can take any queued item at once.  So the single `notify()` per `put`
    never leaves a ready item waiting for a worker that sleeps on. -/
theorem C10_parallel_awake {g : Graph} {cfg : Cfg} {s : StQ} (hr : ReachQ g cfg s) :
    ∃ l : List Nat, l.Nodup ∧ min s.c.queue.length (s.c.ws.countP W.isIdle) ≤ l.length ∧
      ∀ w ∈ l, s.c.ws[w]? = some W.idle ∧ w ∉ s.sleep ∧ ∀ i ∈ s.c.queue, (stepQ? g cfg s (.getTake w i)).isSome := by
  obtain ⟨l, hn, hl, hlen⟩ := q_parallel hr
  exact ⟨l, hn, hlen, fun w hw => ⟨(hl w hw).1, (hl w hw).2, fun i hi => getTake_enabled (hl w hw).1 (hl w hw).2 hi⟩⟩

/-- **Everything that is allowed to run does run.**  If the run returned without interrupt and the error limit was
    not exceeded (`max_errors = None`, or at most `k` calls failed), then every node none of whose dependencies
    failed was executed — for every worker count and schedule.  Together with `C10_errors_bound` for one worker
    (`≤ k + 1` failures): a single-worker run fails `k + 1` calls, or else all failing calls none of whose
    dependencies failed. -/
theorem C10_runs_all_unblocked {g : Graph} (hg : g.WF) {cfg : Cfg} (hw : 1 ≤ cfg.workers) {s : St}
    (hr : Reach g cfg s) {rank : Nat → Nat} (hrank : ∀ x y, y ∈ g.succs x → rank x < rank y)
    (hc : s.coord = .returned false) (hfew : ∀ k, cfg.maxErr = some k → s.failed.length ≤ k) :
    ∀ y, y ∈ g.nodes → (∀ a, Path g a y → a ∉ s.failed) → y ∈ s.begun := by
  have hi := inv_reach hg hr
  have h4 := inv4_reach hg hw hr
  have h2 := inv2_reach hw hr
  have hskip : s.skipped = [] := by
    cases hs : s.skipped with
    | nil => rfl
    | cons a t =>
      rcases h4.skipWhy (by rw [hs]; simp) with ⟨k, hk, hlt⟩ | h1
      · have := hfew k hk; rw [← h2.errsLen] at this; omega
      · rw [hc] at h1; cases h1
  obtain ⟨q1, q2, _⟩ := h4.quiet (by rw [hc]; rfl)
  have enq_done : ∀ y, y ∈ s.enq → (y ∈ s.okd ∨ y ∈ s.failed) ∧ y ∈ s.retired := by
    intro y hy
    have hpl := hi.place y
    have hone := hi.once y
    have hpos := List.count_pos_iff.mpr hy
    have hq0 : s.queue.count (Item.node y) = 0 := List.count_eq_zero.mpr (q1 y)
    have hw0 : s.ws.countP (holds y) = 0 := by
      apply List.countP_eq_zero.mpr
      intro v hv; simp [holds, q2 v hv]
    simp only [cnt, qCount, wCount, rCount] at hpl
    have hret : y ∈ s.retired := List.count_pos_iff.mp (by omega)
    rcases h4.retWhy y hret with h1 | h1 | h1
    · exact ⟨Or.inl h1, hret⟩
    · exact ⟨Or.inr h1, hret⟩
    · rw [hskip] at h1; cases h1
  have key : ∀ n y, rank y ≤ n → y ∈ g.nodes → (∀ a, Path g a y → a ∉ s.failed) → y ∈ s.enq := by
    intro n
    induction n with
    | zero =>
      intro y hy hyn _
      have hp : g.preds y = [] := by
        cases hpy : g.preds y with
        | nil => rfl
        | cons p t => have := hrank p y ((hg.adj p y).mpr (by rw [hpy]; simp)); omega
      apply h4.srcEnq
      simp [sources, hyn, Graph.predCount, hp, classify_source_iff]
    | succ n ih =>
      intro y hy hyn hanc
      cases hpy : g.preds y with
      | nil =>
        apply h4.srcEnq
        simp [sources, hyn, Graph.predCount, hpy, classify_source_iff]
      | cons p0 t =>
        apply h4.relEnq y (by rw [hpy]; simp)
        intro p hp
        have hsp : y ∈ g.succs p := (hg.adj p y).mpr hp
        have hlt := hrank p y hsp
        have hpn : p ∈ g.nodes := (hg.succsNodes p y hsp).1
        have hpe := ih p (by omega) hpn (fun a ha => hanc a (Path.cons ha hp))
        obtain ⟨hpd, hpr⟩ := enq_done p hpe
        have hpo : p ∈ s.okd := by
          rcases hpd with h1 | h1
          · exact h1
          · exact absurd h1 (hanc p (Path.single hp))
        exact h4.okdRel p hpr hpo y hsp
  intro y hy hanc
  rcases (enq_done y (key (rank y) y (Nat.le_refl _) hy hanc)).1 with h1 | h1
  · exact hi.okBegun y h1
  · exact (hi.failBegun y h1).1

/-! ## retry = n  (`create_retry`, with loop bound, last-attempt test and exception class regenerated from retry.py)

`script j` is what the j-th call of the decorated function does.  The same wrapper is applied to call functions, to
store `read`/`write` (they are calls of the physical plan) and to `get_modified_time` (facts in `Gen.Retry.facts`). -/

open Uberjob.Retry in
/-- At most `n` attempts, at least one, stopping at the first success (or first non-`Exception`); the result is that
    attempt's result. -/
theorem C10_retry_attempts {V E : Type} (n : Nat) (hn : 1 ≤ n) (script : Nat → Outcome V E) :
    ∃ run, retryLoop (n : Int) script = some run ∧ run.attempts = min n (firstStop script n 0 + 1)
      ∧ run.res = final (script (min (n - 1) (firstStop script n 0))) :=
  retry_attempts n hn script

open Uberjob.Retry in
theorem C10_retry_bounds {V E : Type} (n : Nat) (hn : 1 ≤ n) (script : Nat → Outcome V E) :
    ∃ run, retryLoop (n : Int) script = some run ∧ 1 ≤ run.attempts ∧ run.attempts ≤ n ∧ run.res ≠ .returnedNone :=
  retry_attempts_le n hn script

open Uberjob.Retry in
/-- An eventual success (after `m < n` failing attempts) is a success: the value of that attempt is returned. -/
theorem C10_retry_first_success {V E : Type} (n : Nat) (script : Nat → Outcome V E) (m : Nat) (v : V) (hm : m < n)
    (hpre : ∀ j, j < m → ∃ e, script j = Outcome.exc e) (hok : script m = .ok v) :
    retryLoop (n : Int) script = some ⟨.returned v, m + 1⟩ :=
  retry_first_success n script m v hm hpre hok

open Uberjob.Retry in
/-- When all `n` attempts fail, the exception reported is the one of the LAST attempt. -/
theorem C10_retry_last_exception {V E : Type} (n : Nat) (hn : 1 ≤ n) (script : Nat → Outcome V E) (e : E)
    (hall : ∀ j, j < n → ∃ e', script j = Outcome.exc e') (hlast : script (n - 1) = Outcome.exc e) :
    retryLoop (n : Int) script = some ⟨.raised .exc e, n⟩ :=
  retry_last_exception n hn script e hall hlast

open Uberjob.Retry in
/-- Only `Exception`s are retried: a `BaseException` (KeyboardInterrupt, SystemExit) surfaces at once. -/
theorem C10_retry_base_exception {V E : Type} (n : Nat) (script : Nat → Outcome V E) (m : Nat) (e : E)
    (hm : m < n) (hpre : ∀ j, j < m → ∃ e', script j = Outcome.exc e') (hb : script m = Outcome.baseExc e) :
    retryLoop (n : Int) script = some ⟨.raised .baseExc e, m + 1⟩ :=
  retry_base_exception_not_retried n script m e hm hpre hb

open Uberjob.Retry in
theorem C10_retry_one_is_identity {V E : Type} (script : Nat → Outcome V E) :
    createRetry 1 = .identity ∧ retryLoop 1 script = some ⟨final (script 0), 1⟩ :=
  retry_one_is_identity script

/-- `retry` reaches call functions, store reads/writes and modified-time queries; custom decorators pass through. -/
theorem C10_retry_sites : Uberjob.Gen.Retry.facts.faithful = true := Uberjob.Retry.facts_faithful

end Uberjob.Engine
