import UberjobModel.Lemmas.EngineInv2
import UberjobModel.Lemmas.EngineExamples
/-!
# C10 — run limits: max_workers and max_errors (engine part)

`runningCount s` = number of workers inside `fn`.  Both the call functions of the physical plan and the
store operations are `fn` of some node, and the stale check is a separate engine instance whose
`workers` is `stale_check_max_workers`.
-/
namespace Uberjob.Engine
open Uberjob.Gen.Engine

/-- Never more than `worker_count` calls execute at the same time. -/
theorem C10_workers {g : Graph} {cfg : Cfg} (hw : 1 ≤ cfg.workers) {s : St} (h : Reach g cfg s) :
    runningCount s ≤ cfg.workers :=
  running_le (inv2_reach hw h)

/-- Never more threads than `worker_count`. -/
theorem C10_pool {g : Graph} {cfg : Cfg} (hw : 1 ≤ cfg.workers) {s : St} (h : Reach g cfg s) :
    s.ws.length ≤ cfg.workers :=
  ws_le (inv2_reach hw h)

/-- With `max_errors = k` at most `k + worker_count` calls fail, in every schedule. -/
theorem C10_errors_bound {g : Graph} {cfg : Cfg} (hw : 1 ≤ cfg.workers) {s : St} (h : Reach g cfg s)
    {k : Nat} (hk : cfg.maxErr = some k) : s.failed.length ≤ k + cfg.workers := by
  have hi := inv2_reach hw h
  have := hi.errBound k hk
  rw [← hi.errsLen]
  split at this <;> omega

/-- While fewer than `k + 1` calls have failed and nobody interrupted, `stop` is not set — so new calls
    keep being started (the converse direction of the bound). -/
theorem C10_no_early_stop {g : Graph} {cfg : Cfg} (hw : 1 ≤ cfg.workers) {s : St} (h : Reach g cfg s)
    (hc : s.coord.past = false) (hlt : ∀ k, cfg.maxErr = some k → s.failed.length ≤ k) : s.stop = false := by
  have hi := inv2_reach hw h
  cases hs : s.stop with
  | false => rfl
  | true =>
    rcases hi.stopWhy hs with h1 | ⟨k, hk, h2⟩
    · rw [hc] at h1; cases h1
    · have := hlt k hk; rw [← hi.errsLen] at this; omega

/-- With `max_errors = None` the engine never stops on errors. -/
theorem C10_none {g : Graph} {cfg : Cfg} (hw : 1 ≤ cfg.workers) {s : St} (h : Reach g cfg s)
    (hn : cfg.maxErr = none) (hc : s.coord.past = false) : s.stop = false :=
  C10_no_early_stop hw h hc (fun k hk => by rw [hn] at hk; cases hk)

/-- Parallelism is not restricted by anything but the pool size: a worker that is idle can always take any
    ready item, whatever the other workers are doing (no guard of `get` mentions another worker). -/
theorem C10_parallel {g : Graph} {cfg : Cfg} {s : St} {w : Nat} {i : Item}
    (hw : s.ws[w]? = some W.idle) (hq : i ∈ s.queue) : (step? g cfg s (.get w i)).isSome := by
  simp [step?, hw, hq]

/-- … and having taken it, it starts the call unless `stop` is set. -/
theorem C10_parallel_begin {g : Graph} {cfg : Cfg} {s : St} {w x : Nat}
    (hw : s.ws[w]? = some (W.held (.node x))) (hs : s.stop = false) :
    ∃ s', step? g cfg s (.check w) = some s' ∧ s'.ws[w]? = some (W.running x) := by
  have hlt : w < s.ws.length := (List.getElem?_eq_some_iff.mp hw).1
  simp only [step?, hw, hs]
  refine ⟨_, rfl, ?_⟩
  simp [setW, hlt]

example : (run? diamond ⟨2, some 0⟩ (init diamond) (diamondRun.take 12)).map runningCount = some 2 := by decide

end Uberjob.Engine
