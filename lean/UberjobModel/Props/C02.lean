import UberjobModel.Lemmas.PlanCall
import UberjobModel.Lemmas.PlanRewire
import UberjobModel.Props.C03
/-!
# C02 — `run` returns exactly what direct evaluation of the call graph would return

Model: `Model/Plan.lean` (`_plan.py`, `graph.py`, `_builtins.py`, value flow of `run_physical.py`), with the
look-up table `GATHER_LOOKUP`, the constructors applied by `gather_*` and the length checks of
`_builtins.unpack` regenerated from the source (`Gen/Plan.lean`).  User functions are uninterpreted
(`Val.app f args kwargs`); every object carries an identity tag.  All statements are for arbitrary plans `st`
(well-formed: every edge goes from a smaller to a larger node number, which `lit/addCall/gather/unpack`
preserve — proved below), arbitrary values `v : PV` (any nesting, nodes as set elements and dict keys, shared
sub-objects, opaque objects), arbitrary positional/keyword argument lists, arbitrary `unpack` lengths and arbitrary
admissible execution orders.
-/
namespace Uberjob.Plan
open Uberjob.Gen.Plan

/-- The source still has the shape the model transcribes: `_gather.recurse` (look-up by `type(root)`, dict
    through `.items()`, rebuild only if `any(isinstance(child, Node))`, else the very `root`), `_call`
    (`PositionalArg(index)` / `KeywordArg(name, index)` by `enumerate`), `get_argument_nodes` (placement by
    `edge_key.index`), `BoundCall.run` (args list, kwargs dict in order, result slot), literal = its own slot,
    `Plan.unpack`, edge-key equality, the rewiring loop of `_add_value_store` (same key object). -/
theorem C02_skeleton : skeleton.faithful = true := by decide

/-- **gather = substitution.**  For every plan and every value whose nodes exist, the node returned by `gather`
    evaluates to the value with every node replaced by its value and every container (exact `list/tuple/set/dict`)
    that contains a node rebuilt by Python's constructor; the plan stays well-formed, the returned node exists,
    and the values of all earlier nodes are unchanged. -/
theorem C02_gather_eval {st : PlanSt} (hwf : WF st) (v : PV) (hv : v.nodesBelow st.nodes.length = true) :
    eval (gather st v).1 (gather st v).2 = subst (eval st) v ∧
    WF (gather st v).1 ∧ (gather st v).2 < (gather st v).1.nodes.length ∧
    ∀ n, n < st.nodes.length → eval (gather st v).1 n = eval st n := by
  obtain ⟨w, e, l, h⟩ := gather_ok st.nodes.length v hwf (Nat.le_refl _) hv
  exact ⟨h, w, l, fun n hn => eval_ext e hn⟩

/-- **Identity of node-free values.**  A value in which no node is reachable through exact built-in containers
    becomes one literal node holding the very object, and evaluates to that object with every identity tag. -/
theorem C02_gather_identity {st : PlanSt} (hwf : WF st) (v : PV) (hv : v.nodesBelow st.nodes.length = true)
    (hc : v.containsNode = false) :
    gather st v = lit st v ∧ eval (gather st v).1 (gather st v).2 = embed v := by
  have h := gather_nodefree st.nodes.length v hwf (Nat.le_refl _) hv hc
  exact ⟨h, by rw [h]; exact eval_lit st v⟩

/-- … and inside a rebuilt structure every node-free subtree is passed as the very object: `subst` is
    compositional (`substList ρ xs = xs.map (subst ρ)`) and is the identity embedding on node-free subtrees. -/
theorem C02_subtree_identity (ρ : Nat → Val) (v : PV) (hc : v.containsNode = false) : subst ρ v = embed v :=
  subst_nodefree ρ hc

theorem C02_subst_children (ρ : Nat → Val) (xs : List PV) : substList ρ xs = xs.map (subst ρ) :=
  substList_eq_map ρ xs

/-- `embed` keeps the identity tag of every container (and of all its descendants). -/
theorem C02_embed_keeps_identity (id : Nat) (xs : List PV) (kvs : List (PV × PV)) :
    embed (.list id xs) = .list (some id) (xs.map embed) ∧ embed (.tuple id xs) = .tuple (some id) (xs.map embed) ∧
    embed (.set id xs) = .set (some id) (xs.map embed) ∧ embed (.dict id kvs) = .dict (some id) (embedKVs kvs) := by
  simp [embed, embedList_eq_map]

/-- **Rebuilt containers are exactly of the built-in type, with a fresh identity.**  If the container contains a
    node and no component fails: a `list`/`tuple` of the substituted children in order; a `set` built by
    `set(children)` (insertion order, an element equal to an earlier one is dropped) — a TypeError (`fail`) if a
    child is unhashable. -/
theorem C02_rebuilt_exact_type (ρ : Nat → Val) (id : Nat) (xs : List PV) (hc : PV.anyContains xs = true)
    (hf : (xs.map (subst ρ)).any Val.isFail = false) :
    subst ρ (.list id xs) = .list none (xs.map (subst ρ)) ∧
    subst ρ (.tuple id xs) = .tuple none (xs.map (subst ρ)) ∧
    subst ρ (.set id xs) = (if Val.hashableAll (xs.map (subst ρ)) then .set none (Val.pySet (xs.map (subst ρ))) else .fail) := by
  simp only [subst, hc, if_true, substList_eq_map, strict_ok hf, Val.build, and_self]

/-- **A rebuilt dict** is `dict(items)` of the substituted `(key, value)` pairs in the order of `.items()`:
    of two keys that become equal the first key object stays and the last value wins (`pyDict`); an unhashable
    key is a TypeError. -/
theorem C02_rebuilt_dict (ρ : Nat → Val) (id : Nat) (kvs : List (PV × PV)) (hc : PV.anyContainsKV kvs = true)
    (hf : (kvs.all fun p => !(subst ρ p.1).isFail && !(subst ρ p.2).isFail) = true) :
    subst ρ (.dict id kvs) =
      (if Val.hashableAll (kvs.map fun p => subst ρ p.1) then
        .dict none (Val.pyDict (kvs.map fun p => (subst ρ p.1, subst ρ p.2))) else .fail) := by
  obtain ⟨h1, h2⟩ := toPairs_substKVs ρ kvs hf
  simp only [subst, hc, if_true, strict_ok h2, Val.build, h1, List.map_map]
  rfl

/-- **Opaque objects are never traversed**, whatever they contain (instances of subclasses of the containers, any
    other object): `recurse` returns the very object without touching the plan, `gather` makes it one literal, a
    container holding it does not count as containing a node because of it, and it is passed as the very object. -/
theorem C02_opaque_not_traversed (st : PlanSt) (ρ : Nat → Val) (id : Nat) (it : Bool) (xs : List PV) :
    recurse st (.opaque id it xs) = (st, .opaque id it xs) ∧
    gather st (.opaque id it xs) = lit st (.opaque id it xs) ∧
    (PV.opaque id it xs).containsNode = false ∧
    subst ρ (.opaque id it xs) = .opaque id it xs := ⟨rfl, rfl, rfl, rfl⟩

/-- **Argument round trip, independent of the order of the edges.**  After `_call` has added the call node `c`
    with positional argument nodes `as` and keyword argument nodes `kws` (distinct names, as Python guarantees for
    `**kwargs`; the same node may occur any number of times in `as` and `kws`), `get_argument_nodes` on ANY
    permutation of the edge list (networkx adjacency order, `Plan.copy`) returns exactly `as` in order and `kws`
    with their names in the order given. -/
theorem C02_args_roundtrip {st : PlanSt} (hwf : WF st) (f : Fn) (as : List Nat) (kws : List (String × Nat))
    (hn : (kws.map (·.1)).Nodup) (es' : List Edge) (hp : es'.Perm (mkCall st f as kws).1.edges) :
    getArgumentNodes es' (mkCall st f as kws).2 = some (as, kws) := by
  apply getArgumentNodes_mkCall st.edges st.nodes.length as kws _ hn es' hp
  intro e he; have := (hwf e he).2; omega

/-- **A call receives its arguments.**  The node returned by `Plan.call(f, *args, **kwargs)` evaluates to `f`
    applied to the substituted positional arguments in order and the substituted keyword arguments under their
    names in the order given (every argument goes through `gather`). -/
theorem C02_call_eval {st : PlanSt} (hwf : WF st) (f : Fn) (args : List PV) (kwargs : List (String × PV))
    (ha : PV.nodesBelowL st.nodes.length args = true) (hk : PV.nodesBelowL st.nodes.length (kwargs.map (·.2)) = true)
    (hn : (kwargs.map (·.1)).Nodup) :
    eval (addCall st f args kwargs).1 (addCall st f args kwargs).2
        = applyFn f (args.map (subst (eval st))) (kwargs.map (fun p => (p.1, subst (eval st) p.2))) ∧
    WF (addCall st f args kwargs).1 ∧
    ∀ n, n < st.nodes.length → eval (addCall st f args kwargs).1 n = eval st n := by
  obtain ⟨w, e, _, h⟩ := addCall_ok f args kwargs hwf ha hk hn
  exact ⟨h, w, fun n hn => eval_ext e hn⟩

/-- A user function simply sees the argument values (Herbrand term), unless one of them has no value. -/
theorem C02_user_call (k : Nat) (args : List Val) (kwargs : List (String × Val))
    (h1 : args.any Val.isFail = false) (h2 : kwargs.any (fun p => p.2.isFail) = false) :
    applyFn (.user k) args kwargs = .app k args kwargs := by
  simp [applyFn, h1, h2]

/-- **unpack, the generated checks:** `tuple(islice(iterable, length + 1))` followed by the two length guards
    accepts exactly the iterables with `length` items. -/
theorem C02_unpack_exact (n len : Nat) : unpackOk n (min (unpackTake n) len) = true ↔ len = n :=
  unpackOk_iff n len

/-- **unpack, the nodes:** `Plan.unpack(v, n)` returns `n` nodes; the `j`-th evaluates to the `j`-th item of the
    substituted iterable if that has exactly `n` items and has no value otherwise (not iterable, too short, too
    long: an exception inside the run). -/
theorem C02_unpack_items {st : PlanSt} (hwf : WF st) (v : PV) (n : Nat) (hv : v.nodesBelow st.nodes.length = true) :
    (unpack st v n).2.length = n ∧ WF (unpack st v n).1 ∧
    ∀ j, j < n → ∃ c, (unpack st v n).2[j]? = some c ∧
      eval (unpack st v n).1 c =
        (match iterItems (subst (eval st) v) with
         | some xs => if xs.length = n then xs.getD j .fail else .fail
         | none => .fail) := by
  obtain ⟨w, _, l, h⟩ := unpack_ok v n hwf hv
  refine ⟨l, w, fun j hj => ?_⟩
  obtain ⟨c, hc, _, hv'⟩ := h j hj
  exact ⟨c, hc, hv'⟩

/-- **Schedule independence.**  Execute the nodes of a well-formed plan in ANY order `lin` without repetition in
    which every non-literal argument of a call comes before the call (what the engine guarantees for its begin
    order, whatever the worker count, the scheduler and the timing; `lin` may be any part of the plan closed in
    this sense, e.g. the ancestors of the output), starting from arbitrary slot contents: processing a node reads
    only the slots of its argument nodes and writes only its own, and every processed node ends up with the value
    direct evaluation gives it. -/
theorem C02_schedule_independent {st : PlanSt} (hwf : WF st) (lin : List Nat) (hadm : Admissible st lin)
    (init : Nat → Val) : ∀ n ∈ lin, readSlot st (lin.foldl (execNode st) init) n = eval st n := by
  have := run_inv hwf lin [] init (by simpa using hadm.1)
    (by intro p1 n p2 hp e he hd hk hl; simpa using hadm.2 p1 n p2 hp e he hd hk hl) (by simp)
  simpa using this

/-- `execNode` writes only the slot of the node it processes. -/
theorem C02_exec_writes_own_slot (st : PlanSt) (slots : Nat → Val) (n m : Nat) (h : m ≠ n) :
    execNode st slots n m = slots m := by simp [execNode, h]

/-- `execNode` reads only the slots of the argument nodes of the node it processes. -/
theorem C02_exec_reads_arguments (st : PlanSt) (s s' : Nat → Val) (n : Nat)
    (h : ∀ e ∈ st.edges, e.dst = n → e.key ≠ .dep → s e.src = s' e.src) :
    execNode st s n n = execNode st s' n n := by
  simp only [execNode, if_true]
  apply evalNode_congr
  intro e he hd hk
  unfold readSlot
  split
  · rfl
  · exact h e he hd hk

/-- **Rewiring by `_add_value_store` keeps the arguments.**  When the argument out-edges of node `n` are moved
    to its read node `r` with their key unchanged (`rewire`; source pinned by `skeleton.rewireKeepsKey`), every
    call `c` gets the same positional and keyword argument lists as before with `n` replaced by `r` at exactly the
    same positions and under the same names (and the real code raises iff it raised before). -/
theorem C02_rewire_preserves_args (es : List Edge) (n r c : Nat) :
    getArgumentNodes (es.map (rewire n r)) c
      = (getArgumentNodes es c).map (fun p => (p.1.map (ren n r), p.2.map (fun q => (q.1, ren n r q.2)))) :=
  getArgumentNodes_rewire es n r c

/-- **What the driver's `runResult` is**: a failure if some needed node has no value, otherwise the direct
    evaluation `eval` of the output node (the table the driver fills is `eval`). -/
theorem C02_run_value (st : PlanSt) (out : Nat) (ho : out < st.nodes.length)
    (hn : ∀ n ∈ needed st out, n < st.nodes.length) :
    runResult st out = if (needed st out).any (fun n => (eval st n).isFail) then .fail else eval st out := by
  have e : ∀ n, n < st.nodes.length → (evalAll st st.nodes.length).getD n .fail = eval st n :=
    fun n h => evalAll_getD st n _ h
  have hany : (needed st out).any (fun n => ((evalAll st st.nodes.length).getD n .fail).isFail)
      = (needed st out).any (fun n => (eval st n).isFail) := by
    rw [Bool.eq_iff_iff]
    simp only [List.any_eq_true]
    constructor
    · rintro ⟨n, hm, hf⟩; exact ⟨n, hm, by rw [← e n (hn n hm)]; exact hf⟩
    · rintro ⟨n, hm, hf⟩; exact ⟨n, hm, by rw [e n (hn n hm)]; exact hf⟩
  unfold runResult
  simp only [hany, e out ho]

/-- The builders keep the plan well-formed (every edge forward), starting from the empty plan. -/
theorem C02_wf_preserved {st : PlanSt} (hwf : WF st) :
    WF ({} : PlanSt) ∧ (∀ v, WF (lit st v).1) ∧
    (∀ a b, a < b → b < st.nodes.length → WF (addDep st a b)) := by
  refine ⟨by intro e he; simp at he, fun v => WF_lit hwf v, ?_⟩
  intro a b hab hb e he
  simp only [addDep, List.mem_append, List.mem_singleton] at he
  rcases he with he | he
  · exact hwf e he
  · subst he; exact ⟨hab, hb⟩

/-! ## Non-vacuity: concrete instances -/

/-- node 0 = `lit a1`, node 1 = `f3()`, node 2 = `lit (a7,)#5`, node 3 = `lit (a7,)#6` -/
def exSt : PlanSt :=
  (lit (lit (addCall (lit {} (.atom 1)).1 (.user 3) [] []).1 (.tuple 5 [.atom 7])).1 (.tuple 6 [.atom 7])).1

/-- `[n0, [a2]#8, MyList([n1])#9, {n2: n0, n3: n1}#10]#11` -/
def exV : PV :=
  .list 11 [.node 0, .list 8 [.atom 2], .opaque 9 true [.node 1], .dict 10 [(.node 2, .node 0), (.node 3, .node 1)]]

/-- node 4 = `f4(n1, n0, zz=n1, a=n0, k=n1)`: keyword order, one node used three times -/
def exSt2 : PlanSt := (addCall exSt (.user 4) [.node 1, .node 0] [("zz", .node 1), ("a", .node 0), ("k", .node 1)]).1

example : WF exSt := by decide
example : WF exSt2 := by decide
example : exV.nodesBelow exSt.nodes.length = true := by decide
example : exV.containsNode = true := by decide
/-- the gathered value: a fresh list; `a1`; the very inner list `#8`; the opaque object untouched (still holding
    the Node); a fresh dict in which the two keys that became equal collapsed: first key object `#5`, last value. -/
example : eval (gather exSt exV).1 (gather exSt exV).2 =
    .list none [.atom 1, .list (some 8) [.atom 2], .opaque 9 true [.node 1],
      .dict none [(.tuple (some 5) [.atom 7], .app 3 [] [])]] := by rfl
example : (gather exSt exV).1.nodes.length = 10 := by decide
example : gather exSt (.list 8 [.atom 2]) = lit exSt (.list 8 [.atom 2]) := by rfl
example : eval exSt2 4 = .app 4 [.app 3 [] [], .atom 1] [("zz", .app 3 [] []), ("a", .atom 1), ("k", .app 3 [] [])] := by rfl
example : getArgumentNodes [⟨1, 4, .kw "a" 1⟩, ⟨0, 4, .pos 1⟩, ⟨1, 4, .kw "zz" 0⟩, ⟨1, 4, .pos 0⟩] 4
    = some ([1, 0], [("zz", 1), ("a", 1)]) := by decide
example : getArgumentNodes [⟨1, 4, .kw "a" 1⟩, ⟨0, 4, .pos 1⟩] 4 = none := by decide
-- unpack: exact length, too short, too long, not iterable
example : (unpack exSt (.list 12 [.node 0, .atom 2]) 2).2.map (eval (unpack exSt (.list 12 [.node 0, .atom 2]) 2).1)
    = [.atom 1, .atom 2] := by rfl
example : (unpack exSt (.list 12 [.node 0]) 2).2.map (eval (unpack exSt (.list 12 [.node 0]) 2).1) = [.fail, .fail] := by rfl
example : (unpack exSt (.list 12 [.node 0, .atom 2, .atom 2]) 2).2.map
    (eval (unpack exSt (.list 12 [.node 0, .atom 2, .atom 2]) 2).1) = [.fail, .fail] := by rfl
example : (unpack exSt (.node 1) 1).2.map (eval (unpack exSt (.node 1) 1).1) = [.fail] := by rfl
example : unpackOk 2 (min (unpackTake 2) 2) = true ∧ unpackOk 2 (min (unpackTake 2) 3) = false
    ∧ unpackOk 2 (min (unpackTake 2) 1) = false := by decide
-- an admissible order that is not the numbering (the literal 0 after its consumer 4: a literal is its own slot)
example : Admissible exSt2 [3, 1, 4, 0, 2] := admissible_of_B (by decide)
example : readSlot exSt2 ([3, 1, 4, 0, 2].foldl (execNode exSt2) (fun _ => .fail)) 4 = eval exSt2 4 := by rfl
example : admissibleB exSt2 [4, 1] = false := by decide
-- set(args): elements equal by value collapse, the first object stays; dict(pairs): last value wins
example : Val.pySet [.tuple (some 5) [.atom 7], .atom 1, .tuple (some 6) [.atom 7]] = [.tuple (some 5) [.atom 7], .atom 1] := by
  rfl
-- rewiring: node 1 replaced by its read node 7 at the same positions / names
example : getArgumentNodes (exSt2.edges.map (rewire 1 7)) 4 = some ([7, 0], [("zz", 7), ("a", 0), ("k", 7)]) := by decide
example : runResult exSt2 4 = eval exSt2 4 := by rfl
example : Val.pyDict [(.int 1, .atom 1), (.atom 2, .atom 2), (.int 1, .atom 3)] = [(.int 1, .atom 3), (.atom 2, .atom 2)] := by
  rfl


/-! ### Schedule independence, derived from the engine

`C02_schedule_independent` takes the order in which nodes are processed as given ("what the engine guarantees").  For a
run WITHOUT a registry the end-to-end theorem of Props/C03.lean supplies it: `Exec.Setup` holds trivially (no stale node,
no store), so under EVERY schedule of the engine model — every worker count, `max_errors`, queue discipline (FIFO, heap,
random bag) and interleaving — a run that returns normally returns the from-scratch (direct-evaluation, Herbrand) value of
the requested output, computed on the pruned plan the run actually examines. -/

open Uberjob.Phys Uberjob.Exec Uberjob.Cache in
theorem isStale_noreg {L : LPlan} (hL : L.WF) (hreg : ∀ k, L.reg k = none) (w : World) (F : Option Int) :
    ∀ k, isStale L w F k = false := by
  intro k
  induction k using Nat.strongRecOn with
  | ind k ih =>
    unfold isStale
    rw [sres_eq hL]
    have hany : (L.preds k).any (fun p => (sres L w F p).stale) = false := by
      apply List.any_eq_false.mpr
      intro p hp
      have := ih p (hL.predsLt k p hp)
      unfold isStale at this
      simp [this]
    simp [staleStepF, hany, hreg k]

open Uberjob.Phys Uberjob.Exec Uberjob.Cache in
/-- A registry-less run satisfies the hypotheses of the end-to-end theorems. -/
theorem setup_noreg {P : Input} (hP : P.WF) (hreg : P.reg = []) (hst : P.stale = [])
    (hlit : ∀ e ∈ P.edges, P.lits.contains e.dst = true → e.key.isArg = false) :
    Setup P ⟨fun _ => none⟩ none 0 where
  wf := hP
  stale := by
    intro x
    rw [isStale_noreg (toLPlan_wf hP) (fun k => by simp [Input.toLPlan, Input.regOf, hreg])]
    simp [Input.isStale, hst]
  srcFresh := by intro i hi; simp [Input.regOf, hreg] at hi
  litArgs := hlit
  good := by intro i hi; simp [Input.toLPlan, Input.regOf, hreg] at hi
  below := by intro i m hm; simp [World.mtime] at hm
  fresh := by intro f hf; cases hf

open Uberjob.Phys Uberjob.Exec Uberjob.Cache in
/-- **`run` without a registry returns the direct-evaluation value under every schedule.** -/
theorem C02_engine_schedule_independent {P : Input} (hP : P.WF) (hreg : P.reg = []) (hst : P.stale = [])
    (hlit : ∀ e ∈ P.edges, P.lits.contains e.dst = true → e.key.isArg = false)
    {cfg : Engine.Cfg} (hw : 1 ≤ cfg.workers) {s : Engine.St} (h : Engine.Reach (engineGraph P) cfg s)
    (hc : s.coord = .returned false) (hf : s.failed = []) {o : Nat} (ho : P.out = some o) (hon : o ∈ P.nodes) :
    (execOrder P (initX ⟨fun _ => none⟩ 0) s.okd).get P (.orig o) = FS P.toLPlan ⟨fun _ => none⟩ o := by
  have S := setup_noreg hP hreg hst hlit
  have := (C03_end_to_end S hw h hc hf).2.2.2 o ho hon (.orig o) (by simp [physOut, ho, Input.regOf, hreg])
  exact this

end Uberjob.Plan
