import UberjobModel.Lemmas.Refs
import UberjobModel.Lemmas.EnginePath
/-!
# C16 — intermediate results are released as soon as their last consumer has finished  (proof, PARTIAL)

On the `Refs` model of `run_physical.py` (objects `slot i`, `boundCall j`, `entry j`, `lookup`, `outRef`, `table`;
reference edges exactly as `_create_bound_call_lookup_and_output_slot` creates them; `bound_call.value = None`
executed where the regenerated facts `Gen.Refs.dropOnOk / dropOnFail` say; the slot table alive only while
`Gen.Refs.tableLocal` says).

Quantified over: every physical plan `g` (any nodes, any argument lists — repeated arguments, literals, cycles
even), every output, and every SEQUENCE OF OPERATIONS `ops` (`store i` = `self.result.value = …`,
`finish j ok` = control leaves the `try` of `process(j)` normally or by an exception), in any order and for any
subset of the calls.  That covers every worker count, scheduler and interleaving: the engine can only produce
some of these sequences (duplicate-free, predecessor-closed — `C16_release_lin`, `C16_args_alive`).
"Finished" includes calls that raised: the drop sits in a `finally`.

PARTIAL: only uberjob's own data structures are modelled.  References held by CPython frames (the running call's
arguments), by the traceback of a raised exception, by the progress observer, or by the user's functions and
values are outside the model; so is the garbage collector.
-/
namespace Uberjob.Refs
open Uberjob.Gen.Refs (facts)

/-- The source still has the shape the model assumes (BoundCall holds exactly its argument slots and its result
    slot; the lookup wraps each BoundCall in a Slot; the drop is a top-level statement of the `finally`; `process`
    captures only `bound_call_lookup`, `progress_observer`, `retry`; `run_physical` keeps `output_slot`/`process`;
    `run_physical.py` has no module-level state) — re-decided against the current source. -/
theorem C16_facts : facts.faithful = true := by decide

/-- control has left the `try … finally` of `process(j)` (the call returned or raised) -/
def Finished (ops : List Op) (j : Nat) : Prop := ∃ ok, Op.finish j ok ∈ ops

private theorem gen_tl : Cfg.gen.tableLocal = true := by decide
private theorem gen_ok : Cfg.gen.dropOnOk = true := by decide
private theorem gen_fail : Cfg.gen.dropOnFail = true := by decide

/-- **Release.**  Once call `i` and every call that takes `i` as an argument have finished, and `i` is not the
    requested output, no live uberjob object references the result cell of `i`; the cell and the result object
    are unreachable from everything `run_physical` holds. -/
theorem C16_release (g : G) (ops : List Op) (i : Nat) (hi : Finished ops i)
    (hc : ∀ j ∈ calls g, i ∈ g.args j → Finished ops j) (ho : g.output ≠ some i) :
    (∀ x, ¬ Holder g (run Cfg.gen (.ret :: ops)) i x) ∧
    ¬ Reach g (run Cfg.gen (.ret :: ops)) (.slot i) ∧ ¬ Reach g (run Cfg.gen (.ret :: ops)) (.value i) := by
  have hslot : ¬ Reach g (run Cfg.gen (.ret :: ops)) (.slot i) := by
    intro h
    have h := reach_slot.mp h
    simp only [slotLive, run_ret_tableLive _ gen_tl, Bool.false_and, Bool.false_or, Bool.or_eq_true] at h
    rcases h with h | h
    · simp only [isOutput, Bool.and_eq_true, beq_iff_eq] at h
      exact ho h.1
    · simp only [heldByCall, List.any_eq_true, Bool.and_eq_true, Bool.or_eq_true, Bool.not_eq_true',
        beq_iff_eq, List.contains_eq_mem, decide_eq_true_eq, decide_eq_false_iff_not] at h
      obtain ⟨j, hjc, hjd, hj⟩ := h
      apply hjd
      have fin : Finished ops j := by
        rcases hj with rfl | ⟨ha, _⟩
        · exact hi
        · exact hc j hjc ha
      obtain ⟨ok, hok⟩ := fin
      exact foldl_finish_dropped _ gen_ok gen_fail _ _ (List.mem_cons_of_mem _ hok)
  refine ⟨fun x hx => hslot (.step hx.1 hx.2), hslot, fun h => ?_⟩
  have h := reach_value.mp h
  simp only [valueLive, Bool.and_eq_true] at h
  exact hslot (reach_slot.mpr h.1)

/-- **The output is held by the output variable only.**  When the output call and its consumers have finished,
    `output_slot` is the one and only holder of the output's result cell (so `run_physical` can still return it). -/
theorem C16_output (g : G) (ops : List Op) (o : Nat) (ho : g.output = some o) (hcall : g.isCall o = true)
    (hi : Finished ops o) (hc : ∀ j ∈ calls g, o ∈ g.args j → Finished ops j) :
    ∀ x, Holder g (run Cfg.gen (.ret :: ops)) o x ↔ x = .outRef := by
  intro x
  constructor
  · rintro ⟨hx, hy⟩
    rcases holder_cases hy with ⟨rfl, _⟩ | ⟨rfl, _⟩ | ⟨j, rfl, hj⟩
    · have := reach_table.mp hx
      rw [run_ret_tableLive _ gen_tl] at this
      cases this
    · rfl
    · obtain ⟨hjc, hjd⟩ := reach_boundCall.mp hx
      exfalso; apply hjd
      have fin : Finished ops j := by
        rcases hj with rfl | ⟨ha, _⟩
        · exact hi
        · exact hc j hjc ha
      obtain ⟨ok, hok⟩ := fin
      exact foldl_finish_dropped _ gen_ok gen_fail _ _ (List.mem_cons_of_mem _ hok)
  · rintro rfl
    exact ⟨reach_outRef, by simp [edges, ho, hcall]⟩

/-- **The slot table is not retained.**  After `_create_bound_call_lookup_and_output_slot` has returned,
    `result_lookup` is unreachable, and whatever still references a result cell is the output variable or a
    BoundCall that has not been dropped yet. -/
theorem C16_table_dropped (g : G) (ops : List Op) :
    ¬ Reach g (run Cfg.gen (.ret :: ops)) .table ∧
    ∀ i x, Holder g (run Cfg.gen (.ret :: ops)) i x →
      x = .outRef ∨ ∃ j, x = .boundCall j ∧ j ∉ (run Cfg.gen (.ret :: ops)).dropped := by
  have ht : ¬ Reach g (run Cfg.gen (.ret :: ops)) .table := by
    intro h
    have := reach_table.mp h
    rw [run_ret_tableLive _ gen_tl] at this
    cases this
  refine ⟨ht, ?_⟩
  rintro i x ⟨hx, hy⟩
  rcases holder_cases hy with ⟨rfl, _⟩ | ⟨rfl, _⟩ | ⟨j, rfl, _⟩
  · exact absurd hx ht
  · exact .inl rfl
  · exact .inr ⟨j, rfl, (reach_boundCall.mp hx).2⟩

/-- **Exactness of the closed form the driver evaluates** (every graph, every state): a result object is
    reachable from what uberjob holds iff `valueLive` says so; likewise for result cells. -/
theorem C16_live_iff (g : G) (s : St) (i : Nat) :
    (Reach g s (.value i) ↔ valueLive g s i = true) ∧ (Reach g s (.slot i) ↔ slotLive g s i = true) :=
  ⟨reach_value, reach_slot⟩

/-- **Not released early.**  A stored result stays reachable as long as one of its consumers has not finished. -/
theorem C16_kept_while_needed (g : G) (ops : List Op) (i j : Nat) (hs : Op.store i ∈ ops) (hic : g.isCall i = true)
    (hj : j ∈ calls g) (ha : i ∈ g.args j) (hn : ¬ Finished ops j) :
    Reach g (run Cfg.gen (.ret :: ops)) (.value i) := by
  apply reach_value.mpr
  have hst : i ∈ (run Cfg.gen (.ret :: ops)).stored := foldl_store_stored _ _ _ (List.mem_cons_of_mem _ hs)
  have hnd : j ∉ (run Cfg.gen (.ret :: ops)).dropped := by
    intro h
    rcases foldl_dropped_sub _ _ _ h with h | ⟨ok, h⟩
    · simp [init] at h
    · rcases List.mem_cons.mp h with h | h
      · cases h
      · exact hn ⟨ok, h⟩
  have : heldByCall g (run Cfg.gen (.ret :: ops)) i = true := by
    simp only [heldByCall, List.any_eq_true]
    exact ⟨j, hj, by simp [hnd, ha, hic]⟩
  simp [valueLive, slotLive, this, hst]

/-- `C16_release` at a call boundary of a one-at-a-time execution: after the calls in `lin` (any list — in
    particular every duplicate-free, predecessor-closed prefix the engine can produce) ran to completion. -/
theorem C16_release_lin (g : G) (lin : List Nat) (i : Nat) (hi : i ∈ lin)
    (hc : ∀ j ∈ calls g, i ∈ g.args j → j ∈ lin) (ho : g.output ≠ some i) :
    (∀ x, ¬ Holder g (afterLin Cfg.gen lin) i x) ∧ ¬ Reach g (afterLin Cfg.gen lin) (.value i) := by
  have fin : ∀ j, j ∈ lin → Finished (lin.flatMap (fun x => [Op.store x, Op.finish x true])) j :=
    fun j hj => ⟨true, List.mem_flatMap.mpr ⟨j, hj, by simp⟩⟩
  have := C16_release g _ i (fin i hi) (fun j hj ha => fin j (hc j hj ha)) ho
  exact ⟨this.1, this.2.2⟩

/-- **Link to the engine (every worker count, scheduler, interleaving, failure pattern).**  In every reachable
    state of the engine model, while call `j` is executing, the result of each of its arguments is still
    reachable: the engine starts `j` only after its predecessors returned (C01), and a BoundCall is dropped only
    when its own call has left the `try`.  `s` is any `Refs` state consistent with the engine state. -/
theorem C16_args_alive {eg : Engine.Graph} (hg : eg.WF) {cfg : Engine.Cfg} {es : Engine.St}
    (hr : Engine.Reach eg cfg es) (g : G) (hargs : ∀ j, ∀ a ∈ g.args j, a ∈ eg.preds j)
    (s : St) (hst : ∀ x ∈ es.okd, x ∈ s.stored) (hdr : ∀ x ∈ s.dropped, x ∈ es.okd ∨ x ∈ es.failed)
    {j a : Nat} (hj : j ∈ es.begun) (hrun : j ∉ es.okd ∧ j ∉ es.failed) (hjc : j ∈ calls g)
    (ha : a ∈ g.args j) (hac : g.isCall a = true) : Reach g s (.value a) := by
  apply reach_value.mpr
  have hok : a ∈ es.okd := Engine.begun_preds_okd (Engine.inv_reach hg hr) hj a (hargs j a ha)
  have hnd : j ∉ s.dropped := fun h => (hdr j h).elim hrun.1 hrun.2
  have : heldByCall g s a = true := by
    simp only [heldByCall, List.any_eq_true]
    exact ⟨j, hjc, by simp [hnd, ha, hac]⟩
  simp [valueLive, slotLive, this, hst a hok]

/-! ### Non-vacuity: the diamond 0 → {1, 2} → 3 with output 3 -/
def exG : G :=
  { nodes := [0, 1, 2, 3], isCall := fun _ => true, output := some 3
    args := fun j => match j with | 1 => [0] | 2 => [0] | 3 => [1, 2] | _ => [] }

example : valueLive exG (afterLin Cfg.gen [0, 1]) 0 = true := by decide     -- 2 still needs it
example : valueLive exG (afterLin Cfg.gen [0, 1, 2]) 0 = false := by decide  -- released after its last consumer
example : valueLive exG (afterLin Cfg.gen [0, 1, 2]) 1 = true := by decide
example : valueLive exG (afterLin Cfg.gen [0, 1, 2, 3]) 3 = true := by decide  -- the output is kept
example : (exG.nodes.filter (valueLive exG (afterLin Cfg.gen [0, 1, 2, 3]))) = [3] := by decide
example : (afterLin Cfg.gen [0, 1]).tableLive = false := by decide
/-- with the drop only on the success path (not in the `finally`) a failed consumer would pin its arguments -/
example : valueLive exG (run ⟨true, false, true⟩ [.ret, .store 0, .finish 0 true, .finish 1 false, .finish 2 false]) 0 = true := by
  decide
example : valueLive exG (run Cfg.gen [.ret, .store 0, .finish 0 true, .finish 1 false, .finish 2 false]) 0 = false := by
  decide

end Uberjob.Refs
