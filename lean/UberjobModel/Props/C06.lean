import UberjobModel.Lemmas.EnginePath
import UberjobModel.Lemmas.EngineInv2
import UberjobModel.Lemmas.GraphWF
import UberjobModel.Lemmas.EngineExamples
import UberjobModel.Lemmas.EngineRefine
/-!
# C06 — nothing downstream of a failed call runs; the raised error names a real failure

Engine part.  `finFail w` is the step "fn raised (ANY BaseException — the handler's type is the
skeleton flag `catchesBaseException`) and the `with failure_lock` block ran".  The outcome of every
call is chosen by the label sequence, so the theorems hold for every failing subset.
-/
namespace Uberjob.Engine

/-- A node that failed is never in `okd`, and nothing that depends on it (directly or transitively)
    is ever begun — for every `max_errors` (including `None`) and every worker count. -/
theorem C06_contain {g : Graph} (hg : g.WF) {cfg : Cfg} {s : St} (h : Reach g cfg s)
    {x y : Nat} (hx : x ∈ s.failed) (hxy : Path g x y) : y ∉ s.begun := by
  intro hy
  have hi := inv_reach hg h
  exact (hi.failBegun x hx).2.1 (begun_path_okd hi hxy hy)

/-- The error the run raises (`first_node_error`) is the bookkeeping's first failure: it is set iff
    some call failed, it names a call that did fail, and it is never overwritten by later failures. -/
theorem C06_error {g : Graph} {cfg : Cfg} (hw : 1 ≤ cfg.workers) {s : St} (h : Reach g cfg s) :
    s.first = s.failed.head? :=
  (inv2_reach hw h).firstHead

theorem C06_error_real {g : Graph} {cfg : Cfg} (hw : 1 ≤ cfg.workers) {s : St} (h : Reach g cfg s)
    {x : Nat} (hx : s.first = some x) : x ∈ s.failed := by
  rw [C06_error hw h] at hx
  exact List.mem_of_mem_head? hx

theorem C06_raises_iff {g : Graph} {cfg : Cfg} (hw : 1 ≤ cfg.workers) {s : St} (h : Reach g cfg s) :
    s.first.isSome ↔ s.failed ≠ [] := by
  rw [C06_error hw h]
  cases s.failed <;> simp

/-- A failed node was begun, did not complete, and is not begun again. -/
theorem C06_failed_not_ok {g : Graph} (hg : g.WF) {cfg : Cfg} {s : St} (h : Reach g cfg s)
    {x : Nat} (hx : x ∈ s.failed) : x ∈ s.begun ∧ x ∉ s.okd :=
  ⟨((inv_reach hg h).failBegun x hx).1, ((inv_reach hg h).failBegun x hx).2.1⟩

open Uberjob.EngineFine in
/-- **C06 in the fine model** (`Model/EngineFine.lean`: the `failure_lock` block — count, set the first error, decide `stop` —
    and the counter block as individual steps, interleaved arbitrarily with the other threads): nothing that depends on a
    failed node is ever begun; a failed node was begun and did not complete; and once the failure block has taken effect
    the recorded first error is the first failure.  (While a failure block is between its first-error step and its `stop`
    step, `first_node_error` may already name the node that is failing right now — it enters `failed` at the `stop` step —,
    which is why the last clause speaks about the abstraction `abs`.) -/
theorem C06_fine {g : Graph} (hg : g.WF) {cfg : Cfg} (hw : 1 ≤ cfg.workers) {s : St2} (h : Reach2 g cfg s) :
    (∀ x y, x ∈ s.c.failed → Path g x y → y ∉ s.c.begun) ∧
    (∀ x, x ∈ s.c.failed → x ∈ s.c.begun ∧ x ∉ s.c.okd) ∧
    (abs s).first = s.c.failed.head? := by
  obtain ⟨hr, _⟩ := refine_reach hg h
  obtain ⟨_, _, _, _, _, hb, ho, hfl, _⟩ := abs_fields s
  refine ⟨?_, ?_, ?_⟩
  · intro x y hx hxy hy
    exact C06_contain hg hr (by rw [hfl]; exact hx) hxy (by rw [hb]; exact hy)
  · intro x hx
    have := C06_failed_not_ok hg hr (x := x) (by rw [hfl]; exact hx)
    rw [hb, ho] at this
    exact this
  · rw [C06_error hw hr, hfl]

/-- Non-vacuity: in the diamond, node 1 fails; node 3 is never begun and the error names node 1. -/
example : (run? diamond ⟨2, some 0⟩ (init diamond) diamondFail).map (fun s => (s.begun, s.failed, s.first))
    = some ([0, 1, 2], [1], some 1) := by decide

end Uberjob.Engine
