import UberjobModel.Lemmas.EngineRefineLive
import UberjobModel.Lemmas.EngineMeasure
import UberjobModel.Lemmas.KahnSound
import UberjobModel.Lemmas.GraphWF
import UberjobModel.Lemmas.EngineExamples
import UberjobModel.Lemmas.EngineQ
import UberjobModel.Lemmas.Greedy
import UberjobModel.Gen.Greedy
/-!
# C07 — run always terminates and leaves nothing running; cycles are rejected up front

Engine part (every graph, worker count ≥ 1, `max_errors`, failure pattern, queue discipline,
interleaving of the workers with the coordinating thread, with or without an interrupt).
User call functions are assumed to return or raise (`finOk`/`finFail` are always enabled for a running
worker); failure to create a thread is not modelled.
-/
namespace Uberjob.Engine
open Uberjob.Gen.Engine

/-- Every step strictly decreases an explicit measure, so every schedule is finite: a label sequence
    accepted from a reachable state `s` has length at most `mu s`. -/
theorem C07_terminates {g : Graph} (hg : g.WF) {cfg : Cfg} {s s' : St} {ls : List Label}
    (hr : Reach g cfg s) (h : run? g cfg s ls = some s') : ls.length ≤ mu g cfg s := by
  have := run_length_bound hg hr h; omega

/-- No reachable deadlock (no lost wake-up, no missed sentinel): as long as `run_function_on_graph` has not
    returned, some thread can take a step — and that step is not the external `interrupt`. -/
theorem C07_no_deadlock {g : Graph} {cfg : Cfg} (hw : 1 ≤ cfg.workers) {s : St} (h : Reach g cfg s)
    (hnf : ∀ i, s.coord ≠ .returned i) : ∃ l, l ≠ Label.interrupt ∧ (step? g cfg s l).isSome :=
  progress hw (inv2_reach hw h) (inv3_reach hw h) hnf

/-- Hence every reachable state can be driven to `returned`, whatever the scheduler does meanwhile. -/
theorem C07_can_finish {g : Graph} (hg : g.WF) {cfg : Cfg} (hw : 1 ≤ cfg.workers) :
    ∀ (n : Nat) (s : St), mu g cfg s ≤ n → Reach g cfg s →
      ∃ ls s', run? g cfg s ls = some s' ∧ ∃ i, s'.coord = .returned i := by
  intro n
  induction n with
  | zero =>
    intro s hm hr
    by_cases hf : ∃ i, s.coord = .returned i
    · exact ⟨[], s, rfl, hf⟩
    · obtain ⟨l, _, hl⟩ := C07_no_deadlock hw hr (fun i hi => hf ⟨i, hi⟩)
      obtain ⟨s1, h1⟩ := Option.isSome_iff_exists.mp hl
      have := mu_decreases hg (inv_reach hg hr) h1
      omega
  | succ n ih =>
    intro s hm hr
    by_cases hf : ∃ i, s.coord = .returned i
    · exact ⟨[], s, rfl, hf⟩
    · obtain ⟨l, _, hl⟩ := C07_no_deadlock hw hr (fun i hi => hf ⟨i, hi⟩)
      obtain ⟨s1, h1⟩ := Option.isSome_iff_exists.mp hl
      have hlt := mu_decreases hg (inv_reach hg hr) h1
      obtain ⟨ls, s', hrun, hfin⟩ := ih s1 (by omega) (Reach.step l hr h1)
      exact ⟨l :: ls, s', by simp [run?, h1, hrun], hfin⟩

/-- When `run_function_on_graph` returns (normally, with an error, or after an interrupt) every thread it
    created has exited, exactly `worker_count` were created, and no call is executing. -/
theorem C07_quiescent {g : Graph} {cfg : Cfg} (hw : 1 ≤ cfg.workers) {s : St} (h : Reach g cfg s)
    {i : Bool} (hc : s.coord = .returned i) :
    (∀ w ∈ s.ws, w = W.exited) ∧ s.ws.length = cfg.workers ∧ runningCount s = 0 := by
  have h3 := inv3_reach hw h
  have h2 := inv2_reach hw h
  have hall := h3.retd i hc
  refine ⟨hall, ?_, ?_⟩
  · have := h2.wsLen; rw [hc] at this; exact this
  · unfold runningCount
    apply List.countP_eq_zero.mpr
    intro w hw'; rw [hall w hw']; simp [W.isRunning]

/-- … and nothing can happen afterwards: no label is enabled in a returned state. -/
theorem C07_nothing_later {g : Graph} {cfg : Cfg} (hw : 1 ≤ cfg.workers) {s : St} (h : Reach g cfg s)
    {i : Bool} (hc : s.coord = .returned i) (l : Label) : step? g cfg s l = none := by
  have hall := (inv3_reach hw h).retd i hc
  have hex : ∀ w st, s.ws[w]? = some st → st = W.exited := fun w st hst => hall st (List.mem_of_getElem? hst)
  cases l <;> simp only [step?, hc]
  all_goals
    split
    all_goals first
      | rfl
      | (next hst => have := hex _ _ hst; cases this)

/-- A dependency cycle makes `assert_acyclic` raise; a completed `topological_sort` yields a topological
    order of all nodes. -/
theorem C07_cycle_rejected {g : Graph} (hg : g.WF) {x : Nat} (hc : Path g x x) : Kahn.kahn g = none :=
  Kahn.cycle_rejected hg hc

theorem C07_kahn_sound {g : Graph} (hg : g.WF) {out : List Nat} (h : Kahn.kahn g = some out) :
    Kahn.TopoOrder g out :=
  Kahn.kahn_sound hg h

/-- `assert_acyclic(graph)` is the first statement of `run_function_on_graph` (before the pool is created,
    before any call or store access) — re-decided against the current source. -/
theorem C07_acyclic_first : skeleton.acyclicFirst = true := by decide

/-- The source still has the shape the engine model assumes (worker loop with `task_done` in a `finally`,
    handler catching `BaseException`, `stop` and exactly `worker_count` sentinels in the `finally` around `join`,
    workers joined in `worker_pool`'s `finally`, …). -/
theorem C07_skeleton : skeleton.faithful = true := skeleton_faithful

/-! Non-vacuity. -/
example : (run? diamond ⟨2, some 0⟩ (init diamond) diamondRun).map (·.coord) = some (.returned false) := by decide
example : Kahn.kahn diamond = some [0, 2, 1, 3] := by decide
example : Kahn.kahn (Graph.ofEdges [0, 1, 2] [(0, 1), (1, 2), (2, 1)]) = none := by decide

/-! ### The fine model: the two locks as explicit resources (`Model/EngineFine.lean`) -/

open Uberjob.EngineFine in
/-- **Termination, statement by statement**: every step of the fine model — in which the `remaining_pred_count_lock` block
    and the `failure_lock` block are five interleavable steps each — strictly decreases `mu2`, so every schedule of the
    individual statements is finite. -/
theorem C07_fine_terminates {g : Graph} (hg : g.WF) {cfg : Cfg} {s s' : St2} {l : Label2}
    (hr : Reach2 g cfg s) (h : step2? g cfg s l = some s') : mu2 g cfg s' < mu2 g cfg s :=
  mu2_decreases hg hr h

open Uberjob.EngineFine in
/-- **No deadlock with the locks as resources**: unless the run has returned some thread can take a step; a thread never
    waits for one of the two locks while holding the other, and a lock holder can always take the next step of its block. -/
theorem C07_fine_no_deadlock {g : Graph} (hg : g.WF) {cfg : Cfg} (hw : 1 ≤ cfg.workers) {s : St2}
    (hr : Reach2 g cfg s) (hnf : ∀ i, s.c.coord ≠ .returned i) :
    ∃ l, l ≠ Label2.base .interrupt ∧ (step2? g cfg s l).isSome :=
  fine_progress hg hw hr hnf

/-! ### The wake-up model: sleeping in `queue.get()` / `queue.join()` (`Model/EngineQ.lean`) -/

open Uberjob.EngineQ in
/-- The wake-up model adds only WHO MAY MOVE: its reachable states project to reachable states of the coarse model, so every
    safety theorem (C04, C06, C10 bounds, quiescence) holds of it unchanged. -/
theorem C07_q_refines {g : Graph} {cfg : Cfg} {s : StQ} (h : ReachQ g cfg s) : Reach g cfg s.c :=
  reachQ_reach h

open Uberjob.EngineQ in
/-- Sleepers do not poll: whatever step is taken, the worker that takes it is not asleep in `not_empty.wait()`, and if the
    calling thread takes it, it is not asleep in `all_tasks_done.wait()`. -/
theorem C07_sleepers_do_not_act {g : Graph} {cfg : Cfg} {s s' : StQ} {l : LabelQ} (hr : ReachQ g cfg s)
    (h : stepQ? g cfg s l = some s') :
    (∀ w, workerOf l = some w → w ∉ s.sleep) ∧ (byCaller l = true → s.cs ≠ .asleep) :=
  stepQ_awake (qinv_reach hr) h

open Uberjob.EngineQ in
/-- **No lost wake-up**: threads that find nothing to do go to sleep and are woken only by the single `notify()` of a `put`
    or the `notify_all()` of the `task_done` that brings the count to 0 — and still, in every reachable state in which the
    run has not returned, some thread that is awake can take a step. -/
theorem C07_no_lost_wakeup {g : Graph} {cfg : Cfg} (hw : 1 ≤ cfg.workers) {s : StQ} (hr : ReachQ g cfg s)
    (hnf : ∀ i, s.c.coord ≠ .returned i) : ∃ l, l ≠ LabelQ.interrupt ∧ (stepQ? g cfg s l).isSome :=
  q_progress hw hr hnf

open Uberjob.EngineQ in
/-- Every step of the wake-up model (going to sleep included) strictly decreases `muQ`: no schedule sleeps and wakes for ever. -/
theorem C07_q_terminates {g : Graph} (hg : g.WF) {cfg : Cfg} (hw : 1 ≤ cfg.workers) {s s' : StQ} {l : LabelQ}
    (hr : ReachQ g cfg s) (h : stepQ? g cfg s l = some s') : muQ g cfg s' < muQ g cfg s :=
  muQ_decreases hg hw hr h

open Uberjob.EngineQ in
/-- Hence every reachable state of the wake-up model can be driven to `returned` by steps of threads that are awake. -/
theorem C07_q_can_finish {g : Graph} (hg : g.WF) {cfg : Cfg} (hw : 1 ≤ cfg.workers) :
    ∀ (n : Nat) (s : StQ), muQ g cfg s ≤ n → ReachQ g cfg s →
      ∃ ls s', runQ? g cfg s ls = some s' ∧ ∃ i, s'.c.coord = .returned i := by
  intro n
  induction n with
  | zero =>
    intro s hm hr
    by_cases hf : ∃ i, s.c.coord = .returned i
    · exact ⟨[], s, rfl, hf⟩
    · obtain ⟨l, _, hl⟩ := C07_no_lost_wakeup hw hr (fun i hi => hf ⟨i, hi⟩)
      obtain ⟨s1, h1⟩ := Option.isSome_iff_exists.mp hl
      have := muQ_decreases hg hw hr h1
      omega
  | succ n ih =>
    intro s hm hr
    by_cases hf : ∃ i, s.c.coord = .returned i
    · exact ⟨[], s, rfl, hf⟩
    · obtain ⟨l, _, hl⟩ := C07_no_lost_wakeup hw hr (fun i hi => hf ⟨i, hi⟩)
      obtain ⟨s1, h1⟩ := Option.isSome_iff_exists.mp hl
      have hlt := muQ_decreases hg hw hr h1
      obtain ⟨ls, s', hrun, hfin⟩ := ih s1 (by omega) (ReachQ.step l hr h1)
      exact ⟨l :: ls, s', by simp [runQ?, h1, hrun], hfin⟩

/-- Non-vacuity: a run of a two-node chain on two workers in which worker 1 and the calling thread go to sleep, the `put` of
    node 1 wakes worker 1, worker 0 goes to sleep, the last `task_done` wakes the calling thread, and the first sentinel
    wakes worker 0. -/
def chainQ : Graph := Graph.ofEdges [0, 1] [(0, 1)]

open Uberjob.EngineQ in
def chainQRun : List LabelQ :=
  [.base .spawn, .base .spawn, .getTake 0 (.node 0), .getSleep 1, .joinSleep, .base (.check 0), .base (.finOk 0),
   .put (.release 0 1) (some 1), .taskDone 0, .getTake 1 (.node 1), .getSleep 0, .base (.check 1), .base (.finOk 1),
   .taskDone 1, .joinTake, .base .setStop, .put .putDone (some 0), .put .putDone none, .getTake 0 .done, .getTake 1 .done,
   .base (.check 0), .base (.check 1), .taskDone 0, .taskDone 1, .base .joined]

open Uberjob.EngineQ in
example : (runQ? chainQ ⟨2, some 0⟩ (initQ chainQ) chainQRun).map (fun s => (s.c.coord, s.sleep, s.woken)) =
    some (.returned false, [], []) := by decide

open Uberjob.EngineQ in
/-- ... and a sleeper really cannot act: with worker 1 asleep and nothing queued, `getTake 1` is refused; a `put` that names
    no sleeper to wake while one sleeps is refused too (`notify()` does wake one). -/
example : (runQ? chainQ ⟨2, some 0⟩ (initQ chainQ)
    [.base .spawn, .base .spawn, .getTake 0 (.node 0), .getSleep 1, .base (.check 0), .base (.finOk 0),
     .put (.release 0 1) none]).isNone = true := by decide

end Uberjob.Engine

/-! ## the default scheduler's priorities (`_execution/greedy.py`): computed for every DAG, one per node -/
namespace Uberjob.Greedy

/-- `Greedy.search` / `Greedy.order` / `Greedy.priority` are the shape of the CURRENT `greedy.pred_search`, of the end of
    `greedy.get_priority_mapping` and of the default branch of `scheduler.create_queue` (regenerated on every check) -/
theorem C07_greedy_source_shape : Gen.Greedy.predSearchShape = true ∧ Gen.Greedy.priorityMappingShape = true ∧
    Gen.Greedy.defaultQueueShape = true := by decide

/-- **`get_priority_mapping` gets there**: for every DAG (any size, any mix of argument and plain-dependency edges) and
    whatever order the condensation puts the pseudo-sinks in, `pred_search` ends - within `|sinks| + n + |E|` iterations of its
    loop - having yielded every node of the graph exactly once. -/
theorem C07_priorities_computed (g : Gr) (hg : g.WF) (sinks : List Nat) (hs1 : ∀ x ∈ sinks, x < g.n)
    (hs2 : ∀ u, u < g.n → g.isSink u = true → u ∈ sinks) :
    ∃ o, order g sinks = some o ∧ o.Nodup ∧ (∀ v, v ∈ o ↔ v < g.n) ∧ o.length = g.n := by
  obtain ⟨o, ho, hnd, hmem⟩ := order_total g hg sinks hs1 hs2
  refine ⟨o, ho, hnd, hmem, ?_⟩
  have hp : o.Perm (List.range g.n) :=
    (List.perm_ext_iff_of_nodup hnd List.nodup_range).mpr (fun v => by rw [hmem v, List.mem_range])
  rw [hp.length_eq, List.length_range]

/-- … so every node has a priority in `[0, n)`: none falls back to `-1`, the priority of the DONE sentinel, and … -/
theorem C07_priority_range (g : Gr) (hg : g.WF) (sinks : List Nat) (hs1 : ∀ x ∈ sinks, x < g.n)
    (hs2 : ∀ u, u < g.n → g.isSink u = true → u ∈ sinks) (v : Nat) (hv : v < g.n) :
    0 ≤ priority g sinks v ∧ priority g sinks v < g.n := by
  obtain ⟨o, ho, _, hmem, hlen⟩ := C07_priorities_computed g hg sinks hs1 hs2
  have hvo := (hmem v).mpr hv
  have := List.idxOf_lt_length_of_mem hvo
  simp only [priority, ho, hvo, if_true]
  omega

/-- … no two nodes share one. -/
theorem C07_priority_injective (g : Gr) (hg : g.WF) (sinks : List Nat) (hs1 : ∀ x ∈ sinks, x < g.n)
    (hs2 : ∀ u, u < g.n → g.isSink u = true → u ∈ sinks) (u v : Nat) (hu : u < g.n) (hv : v < g.n)
    (h : priority g sinks u = priority g sinks v) : u = v := by
  obtain ⟨o, ho, _, hmem, _⟩ := C07_priorities_computed g hg sinks hs1 hs2
  have huo := (hmem u).mpr hu
  have hvo := (hmem v).mpr hv
  simp only [priority, ho, huo, hvo, if_true] at h
  have h' : o.idxOf u = o.idxOf v := by omega
  have h1 := List.getElem_idxOf (List.idxOf_lt_length_of_mem huo)
  have h2 := List.getElem_idxOf (List.idxOf_lt_length_of_mem hvo)
  rw [← h1, ← h2]
  simp only [h']

/-- a diamond with a plain-dependency tail: 0 → 1, 0 → 2, {1, 2} → 3 by arguments, 3 → 4 by `add_dependency` (so 3 and 4 are
    both pseudo-sinks) -/
def exGr : Gr := ⟨5, fun v => if v = 1 then [0] else if v = 2 then [0] else if v = 3 then [1, 2] else if v = 4 then [3] else [],
  fun u v => (u, v) ∈ [(0, 1), (0, 2), (1, 3), (2, 3)]⟩

example : exGr.WF := by
  refine ⟨by decide, ?_⟩
  intro u v h
  simp only [exGr, List.mem_cons, Prod.mk.injEq, List.mem_nil_iff, or_false, decide_eq_true_eq] at h
  rcases h with ⟨rfl, rfl⟩ | ⟨rfl, rfl⟩ | ⟨rfl, rfl⟩ | ⟨rfl, rfl⟩ <;> decide
example : order exGr [3, 4] = some [3, 2, 0, 1, 4] := by decide
example : exGr.isSink 3 = true ∧ exGr.isSink 4 = true ∧ exGr.isSink 1 = false := by decide

end Uberjob.Greedy

/-! ## known findings F7 / F8: what the model's assumption "the pool's start-up completes" hides -/
namespace Uberjob.Engine

/-- The start-up of the pool is ABORTED after some of the workers were started - a KeyboardInterrupt reaching the calling thread
    there (F7), or `Thread.start` raising (F8): control goes to `worker_pool`'s `finally`, which joins the workers started so far,
    WITHOUT passing through the coordinator block whose `finally` sets `stop` and queues the sentinels.  (Not a step of the engine
    model: the theorems above assume that the pool's start-up completes.) -/
def abortStartup (s : St) : Option St :=
  match s.coord with
  | .spawning _ => some { s with coord := .joining true }
  | _ => none

/-- one node, no edges -/
def single : Graph := Graph.ofEdges [0] []

/-- one worker started, the start-up aborted, the worker takes the only node, runs it, finishes it -/
def stuckAfterAbort : Option St :=
  ((step? single ⟨2, some 0⟩ (init single) .spawn).bind abortStartup).bind
    (fun s => run? single ⟨2, some 0⟩ s [.get 0 (.node 0), .check 0, .finOk 0, .taskDone 0])

def stuckState : St := stuckAfterAbort.getD (init single)

theorem stuck_reached : stuckAfterAbort.isSome = true := by decide
theorem stuck_ws : stuckState.ws = [W.idle] := by decide
theorem stuck_queue : stuckState.queue = [] := by decide
theorem stuck_coord : stuckState.coord = .joining true := by decide
theorem stuck_okd : stuckState.okd = [0] := by decide

/-- **F7 / F8 in the model: an aborted start-up never returns.**  With the abort step added there is a reachable state - the
    worker that was started has finished all the work (`okd = [0]`) and waits for an item, the calling thread waits for that worker -
    in which NOTHING is enabled and `run_function_on_graph` has not returned: the negation of `C07_no_deadlock` for the extended
    system.  The probes `harness/probes/ki_during_spawn.py` and `harness/probes/thread_start_failure.py` replay it on the real code
    (known findings F7, F8). -/
theorem C07_startup_abort_hangs_witness :
    stuckAfterAbort.isSome = true ∧ stuckState.okd = [0] ∧ stuckState.coord = .joining true ∧ abortStartup stuckState = none ∧
    ∀ l, step? single ⟨2, some 0⟩ stuckState l = none := by
  refine ⟨stuck_reached, stuck_okd, stuck_coord, by simp [abortStartup, stuck_coord], ?_⟩
  intro l
  cases l with
  | get w i =>
    simp only [step?, stuck_ws, stuck_queue]
    cases w <;> simp
  | check w => simp only [step?, stuck_ws]; cases w <;> simp
  | finOk w => simp only [step?, stuck_ws]; cases w <;> simp
  | finFail w => simp only [step?, stuck_ws]; cases w <;> simp
  | release w y => simp only [step?, stuck_ws]; cases w <;> simp
  | taskDone w => simp only [step?, stuck_ws]; cases w <;> simp
  | spawn => simp [step?, stuck_coord]
  | joinReturn => simp [step?, stuck_coord]
  | interrupt => simp [step?, stuck_coord]
  | setStop => simp [step?, stuck_coord]
  | putDone => simp [step?, stuck_coord]
  | joined => simp [step?, stuck_coord, stuck_ws]
end Uberjob.Engine
