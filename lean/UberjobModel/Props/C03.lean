import UberjobModel.Lemmas.CacheHistory
/-!
# C03 — an incremental run gives the same outputs and stored values as from scratch

Assumptions (the property's own): call functions are deterministic — values are Herbrand terms, so equality of terms
is equality under every interpretation; a store returns what was last written; every write gets a modified time
newer than everything before it (`World.below`).  Dependent sources are treated as sources: "from scratch" is
evaluated on what the source stores hold now (a producer rewriting its source is an `update` event).

`FS P w i` is defined from the LOGICAL plan and the current source contents only (no stored value, no staleness), so
the theorems are not circular.
-/
namespace Uberjob.Cache

/-- Initially (no stored value yet) the invariant holds. -/
theorem C03_good_init (P : LPlan) {w : World} (h : ∀ i, P.reg i = some false → w.st i = none) : Good P w :=
  good_empty P h

/-- After ANY history of completed writes of successful, failed or interrupted runs (in any order), source updates and
    deletions: every stored value the next run would treat as up to date equals its from-scratch value. -/
theorem C03_good_preserved {P : LPlan} (hP : P.WF) {w : World} (hg : Good P w) {ops : List HOp}
    (hok : OpsOk P w ops) : Good P (applyOps P w ops) :=
  good_history hP hg hok

/-- **A run that completes successfully after any such history** (rewriting exactly the out-of-date registered nodes,
    each once, modified times increasing and not before `fresh_time`, ancestors first) leaves in every non-source
    store its from-scratch value, and gives every node's consumers — hence the requested output, whatever its
    shape — the from-scratch value. -/
theorem C03_history {P : LPlan} (hP : P.WF) {w00 : World} (hg : Good P w00) {hist : List HOp}
    (hhist : OpsOk P w00 hist) {F : Option Int} {ops : List HOp} (hnd : NoDelete ops)
    (hok : OpsOk P (applyOps P w00 hist) ops) (hnodup : ((linOf ops).map Prod.fst).Nodup)
    (hOnlyStale : ∀ j t, (j, t) ∈ linOf ops → (∃ s, P.reg j = some s) ∧ isStale P (applyOps P w00 hist) F j = true)
    (hAllStale : ∀ j s, P.reg j = some s → isStale P (applyOps P w00 hist) F j = true → ∃ t, (j, t) ∈ linOf ops)
    (hFresh : ∀ j t f, (j, t) ∈ linOf ops → F = some f → f ≤ t)
    (hOrder : ∀ q tq k tk, (q, tq) ∈ linOf ops → (k, tk) ∈ linOf ops → q ≠ k → Reach P q k → tq < tk) :
    let wf := applyOps P (applyOps P w00 hist) ops
    (∀ i v t, P.reg i = some false → wf.st i = some (v, t) → v = FS P wf i) ∧ (∀ o, seen P wf o = FS P wf o) := by
  have := complete_run_correct hP (good_history hP hg hhist) hnd hok hnodup hOnlyStale hAllStale hFresh hOrder
  exact ⟨this.2.2.1, this.2.2.2⟩

/-- The value a completed write stores, when nothing upstream is out of date, IS the from-scratch value (this is the
    step of the proof where "what the run computes" enters). -/
theorem C03_write_value {P : LPlan} (hP : P.WF) {w : World} (hg : Good P w) {i : Nat}
    (hpreds : ∀ p ∈ P.preds i, isStale P w none p = false) (hreg : P.reg i = some false) :
    rawNow P w i = FS P w i := by
  rw [FS_eq hP, hreg]
  unfold rawNow
  simp only
  congr 1
  apply List.map_congr_left
  intro p hp
  exact seen_eq_FS hP hg p (hpreds p (hP.argsSub i p hp))

/-! Non-vacuity: a history with a stale stored value, then the repairing run. -/
def chainQ : LPlan := ⟨3, fun i => if i = 0 then [] else [i - 1], fun i => if i = 0 then [] else [i - 1],
  fun i => if i = 0 then some true else if i = 2 then some false else none⟩
def hist0 : List HOp := [.update 0 (.src 0 1) 5, .write 2 6, .update 0 (.src 0 2) 7]
example : ((applyOps chainQ ⟨fun _ => none⟩ hist0).st 2).map (·.1.toStr) = some "a2(a1(s0.1))" := by decide
example : (FS chainQ (applyOps chainQ ⟨fun _ => none⟩ hist0) 2).toStr = "a2(a1(s0.2))" := by decide
example : ((applyOps chainQ ⟨fun _ => none⟩ (hist0 ++ [.write 2 8])).st 2).map (·.1.toStr) = some "a2(a1(s0.2))" := by decide

end Uberjob.Cache
