import UberjobModel.Lemmas.CacheHistory
import UberjobModel.Lemmas.ExecFinal
import UberjobModel.Lemmas.ExecNorm
import UberjobModel.Lemmas.ExecProd
import UberjobModel.Props.C04
/-!
# C03 — an incremental run gives the same outputs and stored values as from scratch

Assumptions (the property's own): call functions are deterministic — values are Herbrand terms, so equality of terms
is equality under every interpretation; a store returns what was last written; every write gets a modified time
newer than everything before it (`World.below`).  Dependent sources are treated as sources: "from scratch" is
evaluated on what the source stores hold now (a producer rewriting its source is an `update` event).

`FS P w i` is defined from the LOGICAL plan and the current source contents only (no stored value, no staleness), so
the theorems are not circular.
-/
namespace Uberjob.Cache

/-- Initially (no stored value yet) the invariant holds. -/
theorem C03_good_init (P : LPlan) {w : World} (h : ∀ i, P.reg i = some false → w.st i = none) : Good P w :=
  good_empty P h

/-- After ANY history of completed writes of successful, failed or interrupted runs (in any order), source updates and
    deletions: every stored value the next run would treat as up to date equals its from-scratch value. -/
theorem C03_good_preserved {P : LPlan} (hP : P.WF) {w : World} (hg : Good P w) {ops : List HOp}
    (hok : OpsOk P w ops) : Good P (applyOps P w ops) :=
  good_history hP hg hok

/-- **A run that completes successfully after any such history** (rewriting exactly the out-of-date registered nodes,
    each once, modified times increasing and not before `fresh_time`, ancestors first) leaves in every non-source
    store its from-scratch value, and gives every node's consumers — hence the requested output, whatever its
    shape — the from-scratch value. -/
theorem C03_history {P : LPlan} (hP : P.WF) {w00 : World} (hg : Good P w00) {hist : List HOp}
    (hhist : OpsOk P w00 hist) {F : Option Int} {ops : List HOp} (hnd : NoDelete ops)
    (hok : OpsOk P (applyOps P w00 hist) ops) (hnodup : ((linOf ops).map Prod.fst).Nodup)
    (hOnlyStale : ∀ j t, (j, t) ∈ linOf ops → (∃ s, P.reg j = some s) ∧ isStale P (applyOps P w00 hist) F j = true)
    (hAllStale : ∀ j s, P.reg j = some s → isStale P (applyOps P w00 hist) F j = true → ∃ t, (j, t) ∈ linOf ops)
    (hFresh : ∀ j t f, (j, t) ∈ linOf ops → F = some f → f ≤ t)
    (hOrder : ∀ q tq k tk, (q, tq) ∈ linOf ops → (k, tk) ∈ linOf ops → q ≠ k → Reach P q k → tq < tk) :
    let wf := applyOps P (applyOps P w00 hist) ops
    (∀ i v t, P.reg i = some false → wf.st i = some (v, t) → v = FS P wf i) ∧ (∀ o, seen P wf o = FS P wf o) := by
  have := complete_run_correct hP (good_history hP hg hhist) hnd hok hnodup hOnlyStale hAllStale hFresh hOrder
  exact ⟨this.2.2.1, this.2.2.2⟩

/-- The value a completed write stores, when nothing upstream is out of date, IS the from-scratch value (this is the
    step of the proof where "what the run computes" enters). -/
theorem C03_write_value {P : LPlan} (hP : P.WF) {w : World} (hg : Good P w) {i : Nat}
    (hpreds : ∀ p ∈ P.preds i, isStale P w none p = false) (hreg : P.reg i = some false) :
    rawNow P w i = FS P w i := by
  rw [FS_eq hP, hreg]
  unfold rawNow
  simp only
  congr 1
  apply List.map_congr_left
  intro p hp
  exact seen_eq_FS hP hg p (hpreds p (hP.argsSub i p hp))

/-! ### End to end: the stale check, the physical plan, the engine and the stores together

The theorems above take the store events of a run as given.  The ones below derive them: `Exec.execOrder` applies the
effect of every node of the physical plan (`run_physical.py`: a user call computes from the result slots of its argument
nodes, `read i` fills its slot from store `i`, `write i` stores the result of `orig i` with a newer modified time) in
the order in which a schedule of the ENGINE model (`run_function_on_graph.py`) completes them, on the plan that
`plan_with_value_stores` + `prune_plan` build (`Phys.physFinal`) from the stale set the stale check computes
(`Exec.Setup.stale`).  Quantified over every well-formed plan and registry, every store state satisfying `Good`, every
`fresh_time`, every worker count, `max_errors`, queue discipline and interleaving.  Sources must be up to date
(`Setup.srcFresh`: C03's "sources hold a value"; dependent sources that are out of date are rewritten by user code,
which is covered by the store-level theorems above, not by this execution model). -/

open Uberjob.Phys Uberjob.Exec in
/-- **A run that returns normally, under ANY schedule**: every non-source store holds its from-scratch value, the
    from-scratch values are those of the initial state (the run changes no source), and the node whose result `run`
    returns holds the from-scratch value of the requested output. -/
theorem C03_end_to_end {P : Input} {w0 : World} {F : Option Int} {c0 : Int} (S : Setup P w0 F c0)
    {cfg : Engine.Cfg} (hw : 1 ≤ cfg.workers) {s : Engine.St} (h : Engine.Reach (engineGraph P) cfg s)
    (hc : s.coord = .returned false) (hf : s.failed = []) :
    let xf := execOrder P (initX w0 c0) s.okd
    (∀ k, FS P.toLPlan xf.w k = FS P.toLPlan w0 k) ∧
    (∀ i v t, P.regOf i = some false → xf.w.st i = some (v, t) → v = FS P.toLPlan xf.w i) ∧
    (∀ i, P.regOf i = some false → ∃ t, xf.w.st i = some (FS P.toLPlan w0 i, t)) ∧
    (∀ o, P.out = some o → o ∈ P.nodes → ∀ a, physOut P = some a → xf.get P a = FS P.toLPlan w0 o) := by
  intro xf
  have hL := toLPlan_wf S.wf
  have I : XInv P w0 c0 s.okd xf := xinv_reach S h
  have hall := (Engine.C04_exact (engine_wf P) hw h (rank := id) (engine_ranked S.wf) hc hf).2
  have hFS : ∀ k, FS P.toLPlan xf.w k = FS P.toLPlan w0 k := by
    apply FS_congr hL
    intro k hk
    have hk' : P.regOf k = some true := hk
    have := I.untouched k (write_not_okd_of_not S h (fun _ hh => hh) (okd_begun h) I (by rw [hk']; simp))
    simp [World.content, this]
  have hstored : ∀ i, P.regOf i = some false → ∃ t, xf.w.st i = some (FS P.toLPlan w0 i, t) := by
    intro i hri
    by_cases hst : P.isStale i = true
    · obtain ⟨t, ht, _⟩ := I.written i ((hall _).mpr (write_kept S.wf hri hst))
      exact ⟨t, ht⟩
    · have hu := I.untouched i (write_not_okd_of_not S h (fun _ hh => hh) (okd_begun h) I (fun hh => hst hh.2))
      obtain ⟨t, ht⟩ := fresh_content hL S.good (u := i) hri (by rw [← S.stale]; simpa using hst)
      exact ⟨t, by rw [hu, ht]⟩
  refine ⟨hFS, ?_, hstored, ?_⟩
  · intro i v t hri hst
    obtain ⟨t', ht'⟩ := hstored i hri
    rw [ht'] at hst
    simp only [Option.some.injEq, Prod.mk.injEq] at hst
    rw [hFS, ← hst.1]
  · intro o ho hon a ha
    simp only [physOut, ho, Option.map_some, Option.some.injEq] at ha
    cases hr : P.regOf o with
    | some sr =>
      simp only [hr, Option.isSome_some, if_true] at ha
      subst ha
      have hb : PN.read o ∈ (physBuild P).nodes := read_mem (r := (o, sr)) (mem_of_regOf hr)
      have hk := out_kept (P := P) (a := .read o) (by simp [physOut, ho, hr]) hb
      have := (hall _).mpr (engine_of_final hk rfl)
      simp only [XSt.get, I.readOk o this, Option.getD_some]
    | none =>
      simp only [hr, Option.isSome_none, Bool.false_eq_true, if_false] at ha
      subst ha
      by_cases hl : P.lits.contains o = true
      · simp only [XSt.get, hl, if_true]
        exact (FS_lit S h (fun _ hh => hh) (okd_begun h) I hl (by rw [hr]; simp)).symm
      · have hl' : P.lits.contains o = false := by simpa using hl
        have hk := out_kept (P := P) (a := .orig o) (by simp [physOut, ho, hr]) (orig_mem hon)
        have := (hall _).mpr (engine_of_final hk (by simpa [PN.isLit] using hl'))
        simp only [XSt.get, hl', Bool.false_eq_true, if_false, I.origOk o this hl' (by rw [hr]; simp), Option.getD_some]

open Uberjob.Phys Uberjob.Exec in
/-- **The same with NORMALISING stores** — stores whose `read()` returns an arbitrary function `nm i` of what `write` was
    given (`Model/ExecNorm.lean`).  `P.N nm v` is `v` computed from scratch with the result of every stored call passing through
    its store.  `w0'` is the state of the normalising stores, `w0` the same state with the values as they were written
    (`Start`: same modified times; except in the stores this run rewrites anyway, `w0'` holds the normalised values).  After
    a run that returns normally under ANY schedule every non-source store holds the normalised from-scratch value, with the
    modified time of the plain run, and `run` returns the normalised from-scratch value of the requested output. -/
theorem C03_end_to_end_norm {P : Input} (nm : Nat → V → V) {w0 w0' : World} {F : Option Int} {c0 : Int}
    (S : Setup P w0 F c0) (H : Start P nm w0 w0')
    {cfg : Engine.Cfg} (hw : 1 ≤ cfg.workers) {s : Engine.St} (h : Engine.Reach (engineGraph P) cfg s)
    (hc : s.coord = .returned false) (hf : s.failed = []) :
    let xf := execOrder P (initX w0 c0) s.okd
    let xn := execOrderN P nm (initX w0' c0) s.okd
    (∀ i, P.regOf i = some false → ∃ t, xn.w.st i = some (P.N nm (FS P.toLPlan w0 i), t) ∧ xf.w.mtime i = some t) ∧
    (∀ o, P.out = some o → o ∈ P.nodes → ∀ a, physOut P = some a → xn.get P a = P.N nm (FS P.toLPlan w0 o)) := by
  intro xf xn
  have I : XInv P w0 c0 s.okd xf := xinv_reach S h
  have J : Sim P nm s.okd xf xn := sim_reach S H h
  have hall := (Engine.C04_exact (engine_wf P) hw h (rank := id) (engine_ranked S.wf) hc hf).2
  obtain ⟨_, _, hstored, hout⟩ := C03_end_to_end S hw h hc hf
  constructor
  · intro i hri
    obtain ⟨t, ht⟩ := hstored i hri
    have hct : xn.w.content i = (xf.w.content i).map (P.N nm) := by
      apply J.ct i
      by_cases hst : P.isStale i = true
      · exact Or.inl ((hall _).mpr (write_kept S.wf hri hst))
      · exact Or.inr (fun hh => hst hh.2)
    have hmt := J.mt i
    have ht' : xf.w.st i = some (FS P.toLPlan w0 i, t) := ht
    simp only [World.content, World.mtime, ht', Option.map_some] at hct hmt
    refine ⟨t, ?_, by simp [World.mtime, ht']⟩
    cases hx : xn.w.st i with
    | none => rw [hx] at hct; cases hct
    | some vt =>
      rw [hx] at hct hmt
      simp only [Option.map_some, Option.some.injEq] at hct hmt
      cases vt; simp_all
  · intro o ho hon a ha
    have hplain := hout o ho hon a ha
    simp only [physOut, ho, Option.map_some, Option.some.injEq] at ha
    cases hr : P.regOf o with
    | some sr =>
      simp only [hr, Option.isSome_some, if_true] at ha
      subst ha
      have hb : PN.read o ∈ (physBuild P).nodes := read_mem (r := (o, sr)) (mem_of_regOf hr)
      have hk := out_kept (P := P) (a := .read o) (by simp [physOut, ho, hr]) hb
      have hok := (hall _).mpr (engine_of_final hk rfl)
      simp only [XSt.get, J.rd o hok, I.readOk o hok, Option.map_some, Option.getD_some]
    | none =>
      simp only [hr, Option.isSome_none, Bool.false_eq_true, if_false] at ha
      subst ha
      by_cases hl : P.lits.contains o = true
      · rw [← hplain]
        simp only [XSt.get, hl, if_true]
        rw [N_app_plain (by rw [hr]; simp)]; rfl
      · have hl' : P.lits.contains o = false := by simpa using hl
        have hk := out_kept (P := P) (a := .orig o) (by simp [physOut, ho, hr]) (orig_mem hon)
        have hok := (hall _).mpr (engine_of_final hk (by simpa [PN.isLit] using hl'))
        obtain ⟨args, h1, h2⟩ := J.og o hok hl'
        rw [← hplain]
        have h1' : (execOrder P (initX w0 c0) s.okd).slot (PN.orig o) = some (V.app o args) := h1
        simp only [XSt.get, hl', Bool.false_eq_true, if_false, h1', Option.getD_some]
        rw [h2, N_app_plain (by rw [hr]; simp)]; rfl

open Uberjob.Phys Uberjob.Exec in
/-- **A run that returns normally, under ANY schedule, WITH PRODUCERS** — user calls that rewrite a dependent source as a
    side effect (`Model/ExecProd.lean`; `SetupP`: every producer is private to its source, an out-of-date source has one,
    whatever else the source depends on is upstream of the producer).  The sources change while the run is going on, so
    "from scratch" refers to what the sources hold when the run has returned: with respect to what the sources hold when the run
    has returned, every non-source store holds its from-scratch value; every source that was out of date holds what its
    producer computes from scratch; the other sources are untouched; the returned node holds the from-scratch value of the
    requested output; and nothing is out of date any more. -/
theorem C03_end_to_end_prod {P : Input} {pr : Nat → Option Nat} {w0 : World} {F : Option Int} {c0 : Int} (S : SetupP P pr w0 F c0)
    {cfg : Engine.Cfg} (hw : 1 ≤ cfg.workers) {s : Engine.St} (h : Engine.Reach (engineGraph P) cfg s)
    (hc : s.coord = .returned false) (hf : s.failed = []) :
    let xf := execOrderP P pr (initX w0 c0) s.okd
    (∀ i, P.regOf i = some false → ∃ t, xf.w.st i = some (FS P.toLPlan xf.w i, t)) ∧
    (∀ j d, pr j = some d → P.isStale d = true → xf.w.content d = some (FS P.toLPlan xf.w j)) ∧
    (∀ d, P.regOf d = some true → P.isStale d = false → xf.w.st d = w0.st d) ∧
    (∀ o, P.out = some o → o ∈ P.nodes → ∀ a, physOut P = some a → xf.get P a = FS P.toLPlan xf.w o) ∧
    (∀ k, isStale P.toLPlan xf.w F k = false) := by
  intro xf
  have hL := toLPlan_wf S.wf
  have I : XInvP P pr w0 c0 s.okd xf := xinvP_reach S h
  have hall := (Engine.C04_exact (engine_wf P) hw h (rank := id) (engine_ranked S.wf) hc hf).2
  have notTch : ∀ i, P.isStale i = false → ¬ Tch pr s.okd i := fun i hns ht => by
    rw [(tch_stale S h I ht).2] at hns; cases hns
  refine ⟨?_, ?_, ?_, ?_, ?_⟩
  · intro i hri
    by_cases hst : P.isStale i = true
    · have hm := (hall _).mpr (write_kept S.wf hri hst)
      obtain ⟨t, hmt, _⟩ := I.touched i (Or.inl hm)
      have hct := I.writtenOk i hm
      cases hx : xf.w.st i with
      | none => simp [World.mtime, hx] at hmt
      | some vt =>
        simp only [World.content, World.mtime, hx, Option.map_some, Option.some.injEq] at hct hmt
        exact ⟨vt.2, by rw [← hct]⟩
    · have hst' : P.isStale i = false := by simpa using hst
      have hu := I.untouched i (notTch i hst')
      have hns : isStale P.toLPlan w0 F i = false := by rw [← S.stale]; exact hst'
      obtain ⟨t, ht⟩ := fresh_content hL S.good (u := i) hri hns
      exact ⟨t, by rw [hu, ht, FS_now_of_fresh S h I hst']⟩
  · intro j d hp hst
    exact I.prodOk j d hp ((hall _).mpr (producer_kept S hp hst))
  · intro d _ hst
    exact I.untouched d (notTch d hst)
  · intro o ho hon a ha
    simp only [physOut, ho, Option.map_some, Option.some.injEq] at ha
    cases hr : P.regOf o with
    | some sr =>
      simp only [hr, Option.isSome_some, if_true] at ha
      subst ha
      have hb : PN.read o ∈ (physBuild P).nodes := read_mem (r := (o, sr)) (mem_of_regOf hr)
      have hk := out_kept (P := P) (a := .read o) (by simp [physOut, ho, hr]) hb
      have := (hall _).mpr (engine_of_final hk rfl)
      simp only [XSt.get, I.readOk o this, Option.getD_some]
    | none =>
      simp only [hr, Option.isSome_none, Bool.false_eq_true, if_false] at ha
      subst ha
      by_cases hl : P.lits.contains o = true
      · simp only [XSt.get, hl, if_true]
        exact (FS_litP S.wf S.litArgs xf.w hl (by rw [hr]; simp)).symm
      · have hl' : P.lits.contains o = false := by simpa using hl
        have hk := out_kept (P := P) (a := .orig o) (by simp [physOut, ho, hr]) (orig_mem hon)
        have := (hall _).mpr (engine_of_final hk (by simpa [PN.isLit] using hl'))
        simp only [XSt.get, hl', Bool.false_eq_true, if_false, I.origOk o this hl' (by rw [hr]; simp), Option.getD_some]
  · apply complete_run_fresh hL (w0 := w0) (F := F) (lin := linP pr s.okd xf.w)
    · intro j hj
      apply I.untouched j
      intro ht
      obtain ⟨t, hmt, _⟩ := I.touched j ht
      exact hj t (mem_linP.mpr ⟨ht, hmt⟩)
    · intro j t hm; exact (mem_linP.mp hm).2
    · intro j t hm
      obtain ⟨hreg, hst⟩ := tch_stale S h I (mem_linP.mp hm).1
      exact ⟨hreg, by rw [← S.stale]; exact hst⟩
    · intro j sj hreg hst
      have hstj : P.isStale j = true := by rw [S.stale]; exact hst
      have hregj : P.regOf j = some sj := hreg
      have htch : Tch pr s.okd j := by
        cases sj with
        | false => exact Or.inl ((hall _).mpr (write_kept S.wf hregj hstj))
        | true =>
          obtain ⟨jq, hjq⟩ := S.srcStale j hregj hstj
          exact Or.inr ⟨jq, hjq, (hall _).mpr (producer_kept S hjq hstj)⟩
      obtain ⟨t, hmt, _⟩ := I.touched j htch
      exact ⟨t, mem_linP.mpr ⟨htch, hmt⟩⟩
    · intro j t hm
      obtain ⟨ht, hmt⟩ := mem_linP.mp hm
      obtain ⟨t', hmt', hc'⟩ := I.touched j ht
      have : t = t' := by rw [hmt] at hmt'; exact Option.some.inj hmt'
      subst this
      exact ⟨below_mono S.below hc', fun f hf' => Int.le_trans (S.fresh f hf') hc'⟩
    · intro q tq k tk hq hk hne hr
      obtain ⟨hq1, hq2⟩ := mem_linP.mp hq
      obtain ⟨hk1, hk2⟩ := mem_linP.mp hk
      exact I.order q k tq tk hne hq1 hk1 hq2 hk2 hr

/-! Non-vacuity of the end-to-end theorems: source 0 → stored call 1 → stored call 2 (the output); the source holds a
    value, both stored values are missing.  The hypotheses `Setup` hold, a schedule of the engine model runs the physical
    plan to a normal return, and the execution leaves `a2(a1(s0.1))` in store 2 and in the output slot. -/
namespace ExQ
open Uberjob.Phys Uberjob.Exec

def exQ : Input :=
  ⟨[0, 1, 2], [], [⟨0, 1, .pos 0⟩, ⟨1, 2, .pos 0⟩], [(0, true), (1, false), (2, false)], [1, 2], some 2⟩
def w0q : World := ⟨fun i => if i = 0 then some (.src 0 1, 1) else none⟩
def exQrun : List Engine.Label :=
  [.spawn,
   .get 0 (.node 4), .check 0, .finOk 0, .release 0 5, .taskDone 0,
   .get 0 (.node 5), .check 0, .finOk 0, .release 0 7, .taskDone 0,
   .get 0 (.node 7), .check 0, .finOk 0, .release 0 9, .taskDone 0,
   .get 0 (.node 9), .check 0, .finOk 0, .release 0 10, .taskDone 0,
   .get 0 (.node 10), .check 0, .finOk 0, .release 0 12, .taskDone 0,
   .get 0 (.node 12), .check 0, .finOk 0, .release 0 14, .taskDone 0,
   .get 0 (.node 14), .check 0, .finOk 0, .taskDone 0,
   .joinReturn, .setStop, .putDone, .get 0 .done, .check 0, .taskDone 0, .joined]

theorem isStale_isolated {L : LPlan} (hL : L.WF) (w : World) (F : Option Int) {x : Nat}
    (hp : L.preds x = []) (hr : L.reg x = none) : isStale L w F x = false := by
  unfold isStale
  rw [sres_eq hL]
  simp [staleStepF, hp, hr]

theorem exQ_setup : Setup exQ w0q none 2 where
  wf := by constructor <;> decide
  stale := by
    intro x
    by_cases hx : x < 3
    · have : x = 0 ∨ x = 1 ∨ x = 2 := by omega
      rcases this with rfl | rfl | rfl <;> decide
    · have h1 : exQ.isStale x = false := by
        simp only [Input.isStale, exQ, List.contains_eq_mem, List.mem_cons, List.not_mem_nil, or_false,
          decide_eq_false_iff_not]
        omega
      rw [h1]
      symm
      apply isStale_isolated (toLPlan_wf (by constructor <;> decide))
      · show exQ.logicalPreds x = []
        simp only [Input.logicalPreds, exQ, List.filter_cons, List.filter_nil]
        have h1 : ((1 : Nat) == x) = false := by simp; omega
        have h2 : ((2 : Nat) == x) = false := by simp; omega
        simp [h1, h2, dedup]
      · show exQ.regOf x = none
        simp only [Input.regOf, exQ, List.find?_cons, List.find?_nil]
        have h0 : ((0 : Nat) == x) = false := by simp; omega
        have h1 : ((1 : Nat) == x) = false := by simp; omega
        have h2 : ((2 : Nat) == x) = false := by simp; omega
        simp [h0, h1, h2]
  srcFresh := by
    intro i hi
    simp only [Input.isStale, exQ, List.contains_eq_mem, List.mem_cons, List.not_mem_nil, or_false,
      decide_eq_false_iff_not]
    intro hc
    rcases hc with rfl | rfl <;> simp [Input.regOf, exQ] at hi
  litArgs := by decide
  good := good_empty _ (by
    intro i hi
    have : i ≠ 0 := by
      rintro rfl
      have : exQ.toLPlan.reg 0 = some true := by decide
      rw [this] at hi; cases hi
    simp [w0q, this])
  below := by
    intro i m hm
    by_cases hi : i = 0
    · subst hi; simp [World.mtime, w0q] at hm; omega
    · simp [World.mtime, w0q, hi] at hm
  fresh := by intro f hf; cases hf

theorem exQ_run : ∃ s, Engine.Reach (engineGraph exQ) ⟨1, some 0⟩ s ∧ s.coord = .returned false ∧ s.failed = [] ∧
    s.okd = [4, 5, 7, 9, 10, 12, 14] := by
  have hd : (Engine.run? (engineGraph exQ) ⟨1, some 0⟩ (Engine.init (engineGraph exQ)) exQrun).map
      (fun s => (s.coord, s.failed, s.okd)) = some (.returned false, [], [4, 5, 7, 9, 10, 12, 14]) := by decide
  cases hr : Engine.run? (engineGraph exQ) ⟨1, some 0⟩ (Engine.init (engineGraph exQ)) exQrun with
  | none => rw [hr] at hd; cases hd
  | some s =>
    rw [hr] at hd
    simp only [Option.map_some, Option.some.injEq, Prod.mk.injEq] at hd
    exact ⟨s, Engine.reach_of_run Engine.Reach.init hr, hd.1, hd.2.1, hd.2.2⟩

example : ((execOrder exQ (initX w0q 2) [4, 5, 7, 9, 10, 12, 14]).w.st 2).map (fun p => (p.1.toStr, p.2))
    = some ("a2(a1(s0.1))", 3) := by decide
example : ((execOrder exQ (initX w0q 2) [4, 5, 7, 9, 10, 12, 14]).get exQ (.read 2)).toStr = "a2(a1(s0.1))" := by decide
example : (FS exQ.toLPlan w0q 2).toStr = "a2(a1(s0.1))" := by decide

/-- ... and with normalising stores (`tagNorm i v` = `a(1000000+i)(v)`, a fresh function symbol per store): store 2 is left
    holding `norm₂(a2(norm₁(a1(s0.1))))` — call 2 received the READ-BACK value of store 1 — and that is what `run` returns. -/
theorem exQ_start : Start exQ tagNorm w0q w0q where
  mt := fun _ => rfl
  ct := fun i _ => by
    by_cases h0 : i = 0
    · subst h0; simp [World.content, w0q, Input.N, normalise]
    · simp [World.content, w0q, h0]

example : ((execOrderN exQ tagNorm (initX w0q 2) [4, 5, 7, 9, 10, 12, 14]).w.st 2).map (fun p => (p.1.toStr, p.2))
    = some ("a1000002(a2(a1000001(a1(s0.1))))", 3) := by decide
example : ((execOrderN exQ tagNorm (initX w0q 2) [4, 5, 7, 9, 10, 12, 14]).get exQ (.read 2)).toStr
    = "a1000002(a2(a1000001(a1(s0.1))))" := by decide
example : (exQ.N tagNorm (FS exQ.toLPlan w0q 2)).toStr = "a1000002(a2(a1000001(a1(s0.1))))" := by decide

end ExQ

/-! Non-vacuity of `C03_end_to_end_prod`: pure source 0 → producer 1 (an unregistered call) —dep→ dependent source 2 → stored
    call 3 (the output); source 0 holds a value, the dependent source and the stored value are missing.  The hypotheses
    `SetupP` hold; a schedule of the engine model runs the plan to a normal return (read 0, producer, read 2, call 3,
    write 3, read 3); the execution leaves `a1(s0.1)` — what the producer computes — in the dependent source and
    `a3(a1(s0.1))` in store 3 and in the output. -/
namespace ExR
open Uberjob.Phys Uberjob.Exec

def exR : Input :=
  ⟨[0, 1, 2, 3], [], [⟨0, 1, .pos 0⟩, ⟨1, 2, .dep⟩, ⟨2, 3, .pos 0⟩], [(0, true), (2, true), (3, false)], [2, 3], some 3⟩
def prR (j : Nat) : Option Nat := if j = 1 then some 2 else none
def w0r : World := ⟨fun i => if i = 0 then some (.src 0 1, 1) else none⟩
def exRrun : List Engine.Label :=
  [.spawn,
   .get 0 (.node 4), .check 0, .finOk 0, .release 0 5, .taskDone 0,
   .get 0 (.node 5), .check 0, .finOk 0, .release 0 14, .taskDone 0,
   .get 0 (.node 14), .check 0, .finOk 0, .release 0 15, .taskDone 0,
   .get 0 (.node 15), .check 0, .finOk 0, .release 0 17, .taskDone 0,
   .get 0 (.node 17), .check 0, .finOk 0, .release 0 19, .taskDone 0,
   .get 0 (.node 19), .check 0, .finOk 0, .taskDone 0,
   .joinReturn, .setStop, .putDone, .get 0 .done, .check 0, .taskDone 0, .joined]

theorem exR_setup : SetupP exR prR w0r none 2 where
  wf := by constructor <;> decide
  stale := by
    intro x
    by_cases hx : x < 4
    · have : x = 0 ∨ x = 1 ∨ x = 2 ∨ x = 3 := by omega
      rcases this with rfl | rfl | rfl | rfl <;> decide
    · have h1 : exR.isStale x = false := by
        simp only [Input.isStale, exR, List.contains_eq_mem, List.mem_cons, List.not_mem_nil, or_false,
          decide_eq_false_iff_not]
        omega
      rw [h1]
      symm
      apply ExQ.isStale_isolated (toLPlan_wf (by constructor <;> decide))
      · show exR.logicalPreds x = []
        simp only [Input.logicalPreds, exR, List.filter_cons, List.filter_nil]
        have h1 : ((1 : Nat) == x) = false := by simp; omega
        have h2 : ((2 : Nat) == x) = false := by simp; omega
        have h3 : ((3 : Nat) == x) = false := by simp; omega
        simp [h1, h2, h3, dedup]
      · show exR.regOf x = none
        simp only [Input.regOf, exR, List.find?_cons, List.find?_nil]
        have h0 : ((0 : Nat) == x) = false := by simp; omega
        have h2 : ((2 : Nat) == x) = false := by simp; omega
        have h3 : ((3 : Nat) == x) = false := by simp; omega
        simp [h0, h2, h3]
  litArgs := by decide
  good := good_empty _ (by
    intro i hi
    have : i ≠ 0 := by
      rintro rfl
      have : exR.toLPlan.reg 0 = some true := by decide
      rw [this] at hi; cases hi
    simp [w0r, this])
  below := by
    intro i m hm
    by_cases hi : i = 0
    · subst hi; simp [World.mtime, w0r] at hm; omega
    · simp [World.mtime, w0r, hi] at hm
  fresh := by intro f hf; cases hf
  prodOk := by
    intro j d hp
    unfold prR at hp
    split at hp
    · next hj =>
      subst hj; cases hp
      exact ⟨by decide, by decide, by decide, Cache.Reach.step (Cache.Reach.refl 1) (by decide), by decide⟩
    · cases hp
  ownEx := by
    refine ⟨prR, fun _ _ h => h, ?_⟩
    intro u d hu
    unfold prR at hu
    split at hu
    · next hj => subst hj; cases hu; exact ⟨by decide, by decide, by decide⟩
    · cases hu
  prodInj := by
    intro j j' d h1 h2
    unfold prR at h1 h2
    split at h1 <;> split at h2 <;> simp_all
  srcStale := by
    intro d hr hst
    refine ⟨1, ?_⟩
    have hd : d = 2 ∨ d = 3 := by
      simp only [Input.isStale, exR, List.contains_eq_mem, List.mem_cons, List.not_mem_nil, or_false,
        decide_eq_true_eq] at hst
      exact hst
    rcases hd with rfl | rfl
    · rfl
    · exact absurd hr (by decide)
  depsUp := by
    intro j d hp q sq hq hr hne
    unfold prR at hp
    split at hp
    · next hj =>
      subst hj; cases hp
      have hle := Cache.Reach.le (toLPlan_wf (by constructor <;> decide)) hr
      have hq3 : q = 0 ∨ q = 1 ∨ q = 2 := by omega
      rcases hq3 with rfl | rfl | rfl
      · exact Cache.Reach.step (Cache.Reach.refl 0) (by decide)
      · exact Cache.Reach.refl 1
      · exact absurd rfl hne
    · cases hp

theorem exR_run : ∃ s, Engine.Reach (engineGraph exR) ⟨1, some 0⟩ s ∧ s.coord = .returned false ∧ s.failed = [] ∧
    s.okd = [4, 5, 14, 15, 17, 19] := by
  have hd : (Engine.run? (engineGraph exR) ⟨1, some 0⟩ (Engine.init (engineGraph exR)) exRrun).map
      (fun s => (s.coord, s.failed, s.okd)) = some (.returned false, [], [4, 5, 14, 15, 17, 19]) := by decide
  cases hr : Engine.run? (engineGraph exR) ⟨1, some 0⟩ (Engine.init (engineGraph exR)) exRrun with
  | none => rw [hr] at hd; cases hd
  | some s =>
    rw [hr] at hd
    simp only [Option.map_some, Option.some.injEq, Prod.mk.injEq] at hd
    exact ⟨s, Engine.reach_of_run Engine.Reach.init hr, hd.1, hd.2.1, hd.2.2⟩

example : ((execOrderP exR prR (initX w0r 2) [4, 5, 14, 15, 17, 19]).w.st 2).map (fun p => (p.1.toStr, p.2))
    = some ("a1(s0.1)", 2) := by decide
example : ((execOrderP exR prR (initX w0r 2) [4, 5, 14, 15, 17, 19]).w.st 3).map (fun p => (p.1.toStr, p.2))
    = some ("a3(a1(s0.1))", 3) := by decide
example : ((execOrderP exR prR (initX w0r 2) [4, 5, 14, 15, 17, 19]).get exR (.read 3)).toStr = "a3(a1(s0.1))" := by decide

end ExR

/-! ... and with an ORDERING TOKEN between the producer and its source: source 0 → producer 1 —dep→ token 2 (a plain literal)
    —dep→ dependent source 3 → stored call 4.  The token and the Barrier are contracted away by `_prune_literal_if_trivial`;
    the order producer → read-back of the source survives as a direct edge. -/
namespace ExT
open Uberjob.Phys Uberjob.Exec

def exT : Input :=
  ⟨[0, 1, 2, 3, 4], [2], [⟨0, 1, .pos 0⟩, ⟨1, 2, .dep⟩, ⟨2, 3, .dep⟩, ⟨3, 4, .pos 0⟩],
   [(0, true), (3, true), (4, false)], [3, 4], some 4⟩
def prT (j : Nat) : Option Nat := if j = 1 then some 3 else none
def owT (u : Nat) : Option Nat := if u = 1 ∨ u = 2 then some 3 else none
def w0t : World := ⟨fun i => if i = 0 then some (.src 0 1, 1) else none⟩
def exTrun : List Engine.Label :=
  [.spawn,
   .get 0 (.node 4), .check 0, .finOk 0, .release 0 5, .taskDone 0,
   .get 0 (.node 5), .check 0, .finOk 0, .release 0 19, .taskDone 0,
   .get 0 (.node 19), .check 0, .finOk 0, .release 0 20, .taskDone 0,
   .get 0 (.node 20), .check 0, .finOk 0, .release 0 22, .taskDone 0,
   .get 0 (.node 22), .check 0, .finOk 0, .release 0 24, .taskDone 0,
   .get 0 (.node 24), .check 0, .finOk 0, .taskDone 0,
   .joinReturn, .setStop, .putDone, .get 0 .done, .check 0, .taskDone 0, .joined]

theorem exT_setup : SetupP exT prT w0t none 2 where
  wf := by constructor <;> decide
  stale := by
    intro x
    by_cases hx : x < 5
    · have : x = 0 ∨ x = 1 ∨ x = 2 ∨ x = 3 ∨ x = 4 := by omega
      rcases this with rfl | rfl | rfl | rfl | rfl <;> decide
    · have h1 : exT.isStale x = false := by
        simp only [Input.isStale, exT, List.contains_eq_mem, List.mem_cons, List.not_mem_nil, or_false,
          decide_eq_false_iff_not]
        omega
      rw [h1]
      symm
      apply ExQ.isStale_isolated (toLPlan_wf (by constructor <;> decide))
      · show exT.logicalPreds x = []
        simp only [Input.logicalPreds, exT, List.filter_cons, List.filter_nil]
        have h1 : ((1 : Nat) == x) = false := by simp; omega
        have h2 : ((2 : Nat) == x) = false := by simp; omega
        have h3 : ((3 : Nat) == x) = false := by simp; omega
        have h4 : ((4 : Nat) == x) = false := by simp; omega
        simp [h1, h2, h3, h4, dedup]
      · show exT.regOf x = none
        simp only [Input.regOf, exT, List.find?_cons, List.find?_nil]
        have h0 : ((0 : Nat) == x) = false := by simp; omega
        have h3 : ((3 : Nat) == x) = false := by simp; omega
        have h4 : ((4 : Nat) == x) = false := by simp; omega
        simp [h0, h3, h4]
  litArgs := by decide
  good := good_empty _ (by
    intro i hi
    have : i ≠ 0 := by
      rintro rfl
      have : exT.toLPlan.reg 0 = some true := by decide
      rw [this] at hi; cases hi
    simp [w0t, this])
  below := by
    intro i m hm
    by_cases hi : i = 0
    · subst hi; simp [World.mtime, w0t] at hm; omega
    · simp [World.mtime, w0t, hi] at hm
  fresh := by intro f hf; cases hf
  prodOk := by
    intro j d hp
    unfold prT at hp
    split at hp
    · next hj =>
      subst hj; cases hp
      exact ⟨by decide, by decide, by decide,
        Cache.Reach.step (Cache.Reach.step (Cache.Reach.refl 1) (by decide : 1 ∈ exT.toLPlan.preds 2)) (by decide), by decide⟩
    · cases hp
  ownEx := by
    refine ⟨owT, ?_, ?_⟩
    · intro j d hp
      unfold prT at hp
      split at hp
      · next hj => subst hj; cases hp; rfl
      · cases hp
    · intro u d hu
      unfold owT at hu
      split at hu
      · next hj =>
        cases hu
        rcases hj with rfl | rfl
        · exact ⟨by decide, by decide, by decide⟩
        · exact ⟨by decide, by decide, by decide⟩
      · cases hu
  prodInj := by
    intro j j' d h1 h2
    unfold prT at h1 h2
    split at h1 <;> split at h2 <;> simp_all
  srcStale := by
    intro d hr hst
    refine ⟨1, ?_⟩
    have hd : d = 3 ∨ d = 4 := by
      simp only [Input.isStale, exT, List.contains_eq_mem, List.mem_cons, List.not_mem_nil, or_false,
        decide_eq_true_eq] at hst
      exact hst
    rcases hd with rfl | rfl
    · rfl
    · exact absurd hr (by decide)
  depsUp := by
    intro j d hp q sq hq hr hne
    unfold prT at hp
    split at hp
    · next hj =>
      subst hj; cases hp
      have hle := Cache.Reach.le (toLPlan_wf (by constructor <;> decide)) hr
      have hq3 : q = 0 ∨ q = 1 ∨ q = 2 ∨ q = 3 := by omega
      rcases hq3 with rfl | rfl | rfl | rfl
      · exact Cache.Reach.step (Cache.Reach.refl 0) (by decide)
      · exact Cache.Reach.refl 1
      · have : exT.regOf 2 = none := by decide
        rw [this] at hq; cases hq
      · exact absurd rfl hne
    · cases hp

theorem exT_run : ∃ s, Engine.Reach (engineGraph exT) ⟨1, some 0⟩ s ∧ s.coord = .returned false ∧ s.failed = [] ∧
    s.okd = [4, 5, 19, 20, 22, 24] := by
  have hd : (Engine.run? (engineGraph exT) ⟨1, some 0⟩ (Engine.init (engineGraph exT)) exTrun).map
      (fun s => (s.coord, s.failed, s.okd)) = some (.returned false, [], [4, 5, 19, 20, 22, 24]) := by decide
  cases hr : Engine.run? (engineGraph exT) ⟨1, some 0⟩ (Engine.init (engineGraph exT)) exTrun with
  | none => rw [hr] at hd; cases hd
  | some s =>
    rw [hr] at hd
    simp only [Option.map_some, Option.some.injEq, Prod.mk.injEq] at hd
    exact ⟨s, Engine.reach_of_run Engine.Reach.init hr, hd.1, hd.2.1, hd.2.2⟩

example : ((execOrderP exT prT (initX w0t 2) [4, 5, 19, 20, 22, 24]).w.st 3).map (fun p => (p.1.toStr, p.2))
    = some ("a1(s0.1)", 2) := by decide
example : ((execOrderP exT prT (initX w0t 2) [4, 5, 19, 20, 22, 24]).w.st 4).map (fun p => (p.1.toStr, p.2))
    = some ("a4(a1(s0.1))", 3) := by decide

end ExT

/-! Non-vacuity: a history with a stale stored value, then the repairing run. -/
def chainQ : LPlan := ⟨3, fun i => if i = 0 then [] else [i - 1], fun i => if i = 0 then [] else [i - 1],
  fun i => if i = 0 then some true else if i = 2 then some false else none⟩
def hist0 : List HOp := [.update 0 (.src 0 1) 5, .write 2 6, .update 0 (.src 0 2) 7]
example : ((applyOps chainQ ⟨fun _ => none⟩ hist0).st 2).map (·.1.toStr) = some "a2(a1(s0.1))" := by decide
example : (FS chainQ (applyOps chainQ ⟨fun _ => none⟩ hist0) 2).toStr = "a2(a1(s0.2))" := by decide
example : ((applyOps chainQ ⟨fun _ => none⟩ (hist0 ++ [.write 2 8])).st 2).map (·.1.toStr) = some "a2(a1(s0.2))" := by decide

end Uberjob.Cache
