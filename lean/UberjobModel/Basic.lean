namespace Uberjob
def version : String := "0.1"
end Uberjob
