import UberjobModel.Model.Retry
/-!
  Driver command for the retry model (stateless):

  retry <N> <o> <o> …      o := ok:<v> | exc:<e> | base:<e>      (v, e natural numbers; N any integer)
    -> `valueerror`                       create_retry(N) raised ValueError
     | `ret <v> <k>` | `exc <e> <k>` | `base <e> <k>` | `none <k>`     result and number of calls made
  Attempts beyond the given script would succeed with value 0; the harness never lets that happen (k ≤ #o).
-/
namespace Uberjob.Retry

def parseOutcome (t : String) : Option (Outcome Nat Nat) :=
  match t.splitOn ":" with
  | ["ok", v] => v.toNat?.map .ok
  | ["exc", e] => e.toNat?.map (.raise .exc)
  | ["base", e] => e.toNat?.map (.raise .baseExc)
  | _ => none

def showRun : Option (Run Nat Nat) → String
  | none => "valueerror"
  | some ⟨.returned v, k⟩ => s!"ret {v} {k}"
  | some ⟨.raised .exc e, k⟩ => s!"exc {e} {k}"
  | some ⟨.raised .baseExc e, k⟩ => s!"base {e} {k}"
  | some ⟨.returnedNone, k⟩ => s!"none {k}"

/-- Handler for every line whose first word is `retry`. -/
def drv (line : String) : String :=
  match (line.trimAscii.toString.splitOn " ").filter (· ≠ "") with
  | "retry" :: n :: script =>
    match n.toInt?, script.mapM parseOutcome with
    | some n, some sc => showRun (retryLoop n (ofList sc 0))
    | _, _ => "bad-op"
  | _ => "bad-op"

end Uberjob.Retry
