import UberjobModel.Gen.Queues
/-!
  `RandomQueue._put` / `_get` of scheduler.py (online Fisher–Yates): append, swap with a random index, pop the last.
  The engine model lets a worker take ANY queued item; these definitions and the theorems in Props/C04.lean show that
  the random bag never loses or duplicates an item, whatever the random choices.
-/
namespace Uberjob.Queues

/-- `self.queue.append(item); i = randrange(len(self.queue)); self.queue[i], self.queue[-1] = self.queue[-1], self.queue[i]`
    (`i` is taken modulo the new length, as `randrange` guarantees `i < len`). -/
def randomPut (q : List Nat) (item : Nat) (r : Nat) : List Nat :=
  let q' := q ++ [item]
  let i := r % q'.length
  let last := q'.length - 1
  let a := q'.getD i 0
  let b := q'.getD last 0
  (q'.set i b).set last a

/-- `return self.queue.pop()` -/
def randomGet (q : List Nat) : Option (Nat × List Nat) :=
  match q.getLast? with
  | some x => some (x, q.dropLast)
  | none => none

end Uberjob.Queues

namespace Uberjob.Queues

/-- `rq put <q…> | item r`  → the queue after `_put`;  `rq get <q…>` → `item | rest` or `empty` -/
def drv (line : String) : String :=
  let nats := fun (s : String) => (s.splitOn " ").filterMap (fun t => t.trimAscii.toString.toNat?)
  match line.splitOn "|" with
  | [a, b] =>
    match (a.trimAscii.toString.splitOn " ").filter (· ≠ ""), nats b with
    | "rq" :: "put" :: q, [item, r] => " ".intercalate ((randomPut (q.filterMap (·.toNat?)) item r).map toString)
    | _, _ => "bad-op"
  | [a] =>
    match (a.trimAscii.toString.splitOn " ").filter (· ≠ "") with
    | "rq" :: "get" :: q =>
      match randomGet (q.filterMap (·.toNat?)) with
      | some (x, rest) => s!"{x} | " ++ " ".intercalate (rest.map toString)
      | none => "empty"
    | _ => "bad-op"
  | _ => "bad-op"

end Uberjob.Queues
