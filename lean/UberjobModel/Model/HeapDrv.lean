import UberjobModel.Model.Heap
/-!
  Driver commands of the `Heap` model (C13).

  `c13plan | <plan scope atoms> | kind:atoms;kind:atoms;… | u,v,k;u,v,k;… | op;op;…`
      node objects get addresses 0..N-1, the graph object N, the plan object N+1, allocation base N+2.
      ops: `fork` (Plan.copy into `tmp`), then `o:<m>` / `c:<m>` = mutation through the original / the copy:
           `new:K`  `edge:u,v,k`  `redge:u,v,k`  `rnode:n`  `pscope:atoms`  `lscope:atoms`
      node references: `i` (initial node i) or `#j` (the j-th node created by a `new`)
      reply: `orig=<snap> copy=<snap>`

  `c13reg | node,store,src,frame;… | op;op;…`
      RegistryValue objects get addresses 0..K-1, the registry object K, base K+1.
      ops: `fork` (Registry.copy), `o:`/`c:` + `add:n,s,b,f` `src:n,b` `store:n,s` `rm:n`
      reply: `orig=<snap> copy=<snap>` with entries named `i` (initial) or `#j` (j-th allocated afterwards)

  `c13run | reg=0/1 | tcopy=0/1 | render=0/1`
      the graph lineage of the run (render) program built from the regenerated `flow`, one mutation per phase:
      `C<a>><b>` = graph b is a copy of graph a (0 = the caller's), `M<a>` = graph a is written.
-/
namespace Uberjob.Heap

def dnats (s : String) : List Nat :=
  (s.splitOn " ").filterMap (fun t => t.trimAscii.toString.toNat?)

def dsplit (s : String) (sep : String) : List String :=
  ((s.splitOn sep).map (fun t => t.trimAscii.toString)).filter (· ≠ "")

def insertSorted (x : String) : List String → List String
  | [] => [x]
  | y :: ys => if x < y then x :: y :: ys else y :: insertSorted x ys

def sortS (l : List String) : List String := l.foldl (fun acc x => insertSorted x acc) []

def showAtoms (l : List Nat) : String := " ".intercalate (l.map toString)

/-- name of a node address: initial index, or `#j` for the j-th node created -/
def nodeName (n0 : Nat) (news : List Nat) (a : Nat) : String :=
  if a < n0 then toString a else
  match news.idxOf? a with
  | some j => s!"#{j}"
  | none => s!"?{a}"

def snapStr (n0 : Nat) (news : List Nat) (h : Heap) (p : Nat) : String :=
  match h p with
  | some (.plan g sc) =>
    match h g with
    | some (.graph ns es _) =>
      let nrows := ns.map (fun e =>
        match h e.1 with
        | some (.node kd s) => s!"{nodeName n0 news e.1}:{kd}:{showAtoms s}"
        | _ => s!"{nodeName n0 news e.1}:?")
      let erows := es.map (fun e => s!"{nodeName n0 news e.src},{nodeName n0 news e.dst},{e.key}")
      s!"S[{showAtoms sc}]N[{"|".intercalate (sortS nrows)}]E[{"|".intercalate (sortS erows)}]"
    | _ => "nograph"
  | _ => "-"

def parseRef (n0 : Nat) (news : List Nat) (t : String) : Option Nat :=
  if t.startsWith "#" then (t.drop 1).toString.toNat?.bind (fun j => news[j]?)
  else t.toNat?.bind (fun i => if i < n0 then some i else none)

def parse3 (n0 : Nat) (news : List Nat) (t : String) : Option (Nat × Nat × Nat) :=
  match t.splitOn "," with
  | [a, b, c] => do some ((← parseRef n0 news a), (← parseRef n0 news b), (← c.toNat?))
  | _ => none

def parseMut (n0 : Nat) (news : List Nat) (ts : List String) : Option Mut :=
  match ts with
  | ["new", k] => k.toNat?.map .newNode
  | ["edge", e] => (parse3 n0 news e).map (fun x => .addEdge x.1 x.2.1 x.2.2 [])
  | ["redge", e] => (parse3 n0 news e).map (fun x => .removeEdge x.1 x.2.1 x.2.2)
  | ["rnode", n] => (parseRef n0 news n).map .removeNode
  | ["pscope", a] => some (.setPlanScope (dnats a))
  | ["lscope", a] => some (.scopeOfLast (dnats a))
  | ["pscope"] => some (.setPlanScope [])
  | ["lscope"] => some (.scopeOfLast [])
  | _ => none

structure PSt where
  s : T × Heap
  news : List Nat := []
  bad : Bool := false

def planOp (w : Who) (n0 : Nat) (st : PSt) (op : String) : PSt :=
  if op == "fork" then { st with s := step w st.s (.forkTmp false) } else
  match op.splitOn ":" with
  | who :: rest =>
    match parseMut n0 st.news rest with
    | some m =>
      let s' := step w st.s (.mut (who == "c") m)
      let news := match m with
        | .newNode _ => if s'.1.nxt != st.s.1.nxt then st.news ++ (s'.1.last.toList) else st.news
        | _ => st.news
      { st with s := s', news := news }
    | none => { st with bad := true }
  | _ => { st with bad := true }

def cmdPlan (psc ns es ops : String) : String :=
  let nodes := (ns.splitOn ";").filterMap (fun t =>
    match t.trimAscii.toString.splitOn ":" with
    | [k, a] => k.toNat?.map (fun k => Obj.node k (dnats a))
    | _ => none)
  let n0 := nodes.length
  let edges := (dsplit es ";").filterMap (fun t =>
    match t.splitOn "," with
    | [a, b, c] => do some (Edge.mk (← a.toNat?) (← b.toNat?) (← c.toNat?) [])
    | _ => none)
  let h : Heap := fun a =>
    if a < n0 then nodes[a]?
    else if a = n0 then some (.graph ((List.range n0).map (fun i => (i, []))) edges [])
    else if a = n0 + 1 then some (.plan n0 (dnats psc))
    else none
  let w : Who := ⟨n0 + 2, 0⟩
  let st := (dsplit ops ";").foldl (planOp w n0) { s := (T.init (n0 + 1), h) }
  if st.bad then "bad-op" else
  let copy := match st.s.1.tmp with
    | some q => snapStr n0 st.news st.s.2 q
    | none => "-"
  s!"orig={snapStr n0 st.news st.s.2 (n0 + 1)} copy={copy}"

/-! registry -/

def entName (k0 : Nat) (news : List Nat) (a : Nat) : String :=
  if a < k0 then toString a else
  match news.idxOf? a with
  | some j => s!"#{j}"
  | none => s!"?{a}"

def regStr (k0 : Nat) (news : List Nat) (h : Heap) (r : Nat) : String :=
  match h r with
  | some (.registry m) =>
    "|".intercalate (sortS (m.map (fun ne =>
      match h ne.2 with
      | some (.entry st b fr) => s!"{ne.1}:{entName k0 news ne.2}:{st}:{b}:{fr}"
      | _ => s!"{ne.1}:{entName k0 news ne.2}:?")))
  | _ => "-"

structure RSt where
  s : T × Heap
  copy : Option Nat := none
  news : List Nat := []
  bad : Bool := false

def parseB (t : String) : Option Bool := if t == "1" then some true else if t == "0" then some false else none

def parseRMut (ts : List String) : Option RMut :=
  match ts with
  | ["add", a] =>
    match a.splitOn "," with
    | [n, s, b, f] => do some (.add (← n.toNat?) (← s.toNat?) (← parseB b) (← f.toNat?))
    | _ => none
  | ["src", a] =>
    match a.splitOn "," with
    | [n, b] => do some (.setSource (← n.toNat?) (← parseB b))
    | _ => none
  | ["store", a] =>
    match a.splitOn "," with
    | [n, s] => do some (.setStore (← n.toNat?) (← s.toNat?))
    | _ => none
  | ["rm", n] => n.toNat?.map .remove
  | _ => none

def regOp (w : Who) (r : Nat) (st : RSt) (op : String) : RSt :=
  if op == "fork" then
    let c := regCopy w st.s.1 st.s.2 r
    let k := c.1.nxt - st.s.1.nxt
    { st with s := (c.1, c.2.1), copy := some c.2.2
              news := st.news ++ (List.range (k - 1)).map (fun i => w.addr (st.s.1.nxt + i)) }
  else
  match op.splitOn ":" with
  | who :: rest =>
    match parseRMut rest with
    | some rm =>
      let x := if who == "c" then st.copy else some r
      match x with
      | some x =>
        let s' := applyRMut w st.s x rm
        let news := if s'.1.nxt != st.s.1.nxt then st.news ++ [w.addr st.s.1.nxt] else st.news
        { st with s := s', news := news }
      | none => { st with bad := true }
    | none => { st with bad := true }
  | _ => { st with bad := true }

def cmdReg (es ops : String) : String :=
  let ents := (dsplit es ";").filterMap (fun t =>
    match t.splitOn "," with
    | [n, s, b, f] => do some ((← n.toNat?), Obj.entry (← s.toNat?) (← parseB b) (← f.toNat?))
    | _ => none)
  let k0 := ents.length
  let h : Heap := fun a =>
    if a < k0 then (ents[a]?).map (·.2)
    else if a = k0 then some (.registry (ents.mapIdx (fun i e => (e.1, i))))
    else none
  let w : Who := ⟨k0 + 1, 0⟩
  let st := (dsplit ops ";").foldl (regOp w k0) { s := (T.init 0, h) }
  if st.bad then "bad-op" else
  let copy := match st.copy with
    | some q => regStr k0 st.news st.s.2 q
    | none => "-"
  s!"orig={regStr k0 st.news st.s.2 k0} copy={copy}"

/-! lineage of the run program -/

def graphAddr (h : Heap) (p : Option Nat) : Option Nat := graphOf (p.bind h)

def lineage (w : Who) (prog : List Instr) (s0 : T × Heap) : List String :=
  let g0 := (graphAddr s0.2 (some s0.1.cur)).toList
  let r := prog.foldl (fun (acc : (T × Heap) × List Nat × List String) i =>
    let s := acc.1
    let s' := step w s i
    let gs := acc.2.1
    let name := fun (a : Option Nat) => match a with
      | some a => (match gs.idxOf? a with | some j => toString j | none => s!"?{a}")
      | none => "?"
    match i with
    | .getMutable false =>
      let src := graphAddr s.2 (some s.1.cur)
      match graphAddr s'.2 (some s'.1.cur) with
      | some g' => if gs.contains g' then acc else ((s', gs ++ [g'], acc.2.2 ++ [s!"C{name src}>{gs.length}"]))
      | none => (s', gs, acc.2.2)
    | .forkTmp false =>
      let src := graphAddr s.2 (some s.1.cur)
      match graphAddr s'.2 s'.1.tmp with
      | some g' => if gs.contains g' then (s', gs, acc.2.2) else (s', gs ++ [g'], acc.2.2 ++ [s!"C{name src}>{gs.length}"])
      | none => (s', gs, acc.2.2)
    | .mut onTmp _ =>
      let tgt := graphAddr s.2 (if onTmp then s.1.tmp else some s.1.cur)
      (s', gs, acc.2.2 ++ [s!"M{name tgt}"])
    | .wild a _ => (s', gs, acc.2.2 ++ [s!"W{a}"])
    | _ => (s', gs, acc.2.2)) (s0, g0, [])
  r.2.2

def dedupAdj : List String → List String
  | a :: b :: rest => if a == b then dedupAdj (b :: rest) else a :: dedupAdj (b :: rest)
  | l => l

def cmdRun (reg tcopy render : Bool) : String :=
  let one : List Mut := [.newNode 0]
  let sc : Script := { gather := one, useRegistry := reg, stale := one, stores := one ++ [.scopeOf 0 0 []], prune := one,
                       transformCopies := tcopy, transform := one, phys := one, wild := [(2, .plan 0 [])], render := one }
  let h : Heap := fun a =>
    if a = 0 then some (.node 0 []) else if a = 1 then some (.graph [(0, [])] [] [])
    else if a = 2 then some (.plan 1 []) else none
  let prog := if render then renderProg Gen.Purity.flow sc else runProg Gen.Purity.flow sc
  " ".intercalate (dedupAdj (lineage ⟨3, 0⟩ prog (T.init 2, h)))

def flag (s : String) : Bool := (s.trimAscii.toString.splitOn "=").getLast? == some "1"

def drv (line : String) : String :=
  match line.splitOn "|" with
  | [c, a, b, d, e] =>
    if c.trimAscii.toString == "c13plan" then cmdPlan a b d e else "bad-op"
  | [c, a, b, d] =>
    if c.trimAscii.toString == "c13run" then cmdRun (flag a) (flag b) (flag d) else "bad-op"
  | [c, a, b] =>
    if c.trimAscii.toString == "c13reg" then cmdReg a b else "bad-op"
  | _ => "bad-op"

end Uberjob.Heap
