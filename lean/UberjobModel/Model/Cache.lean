import UberjobModel.Gen.Stale
/-!
  Logical plans with a registry, store states with a logical clock, the stale check
  (`_get_stale_nodes`, caching.py) and from-scratch evaluation.  Core Lean only.

  Nodes are `0 … n-1`, numbered topologically (every predecessor of `i` is `< i`); the harness renumbers a
  real plan before serialising it.  Values are Herbrand terms: a call function is "deterministic" in the
  most general sense.
-/
namespace Uberjob.Cache
open Uberjob.Gen.Stale

inductive V where
  | src (s : Nat) (ver : Nat)          -- what source store `s` holds (version counter)
  | app (i : Nat) (args : List V)      -- the result of call `i` on these argument values
  | missing (i : Nat)                  -- placeholder: reading a store that holds nothing
  | junk (k : Nat)                     -- an arbitrary wrong value (used by fault models)

mutual
  def V.toStr : V → String
    | .src s v => s!"s{s}.{v}"
    | .app i args => s!"a{i}(" ++ V.listToStr args ++ ")"
    | .missing i => s!"missing{i}"
    | .junk k => s!"junk{k}"
  def V.listToStr : List V → String
    | [] => ""
    | [x] => x.toStr
    | x :: xs => x.toStr ++ "," ++ V.listToStr xs
end

structure LPlan where
  n     : Nat
  preds : Nat → List Nat               -- distinct predecessors (argument and plain-dependency edges)
  args  : Nat → List Nat               -- argument predecessors in call order (positional then keyword)
  reg   : Nat → Option Bool            -- `some isSource` for registered nodes

structure LPlan.WF (P : LPlan) : Prop where
  predsLt : ∀ i p, p ∈ P.preds i → p < i
  argsSub : ∀ i p, p ∈ P.args i → p ∈ P.preds i

/-- One value store: its content and modified time (present together, as `write` sets both). -/
abbrev Store := Option (V × Int)

structure World where
  st : Nat → Store

def World.mtime (w : World) (i : Nat) : Option Int := (w.st i).map (·.2)
def World.content (w : World) (i : Nat) : Option V := (w.st i).map (·.1)
def World.set (w : World) (i : Nat) (s : Store) : World := ⟨fun j => if j = i then s else w.st j⟩

structure SRes where
  stale : Bool
  tm    : Option Int
deriving DecidableEq, Repr

def getD' (t : List SRes) (p : Nat) : SRes := t.getD p ⟨false, none⟩

/-- `process(node)` of `_get_stale_nodes` given the results `t` of all smaller nodes. -/
def staleStep (P : LPlan) (w : World) (fresh : Option Int) (t : List SRes) (k : Nat) : SRes :=
  if (P.preds k).any (fun p => (getD' t p).stale) then ⟨true, none⟩
  else
    let anc := safeMax ((P.preds k).map (fun p => (getD' t p).tm))
    match P.reg k with
    | none => ⟨false, anc⟩
    | some isSrc =>
      match w.mtime k with
      | none => ⟨true, none⟩
      | some mt => if staleCond mt anc fresh isSrc then ⟨true, none⟩ else ⟨false, some mt⟩

/-- Dynamic-programming table: entry `k` is computed from the entries of all smaller indices. -/
def tab {α : Type} (step : List α → Nat → α) : Nat → List α
  | 0 => []
  | k + 1 => let t := tab step k; t ++ [step t k]

/-- Results for nodes `0 … k-1`. -/
def staleTab (P : LPlan) (w : World) (fresh : Option Int) : Nat → List SRes :=
  tab (staleStep P w fresh)

def sres (P : LPlan) (w : World) (fresh : Option Int) (i : Nat) : SRes :=
  getD' (staleTab P w fresh (i + 1)) i

def isStale (P : LPlan) (w : World) (fresh : Option Int) (i : Nat) : Bool := (sres P w fresh i).stale

def getV (t : List V) (p : Nat) : V := t.getD p (.missing p)

/-- From-scratch value of every node `< k`: sources hold what they hold, every call is evaluated. -/
def fsStep (P : LPlan) (w : World) (t : List V) (k : Nat) : V :=
  match P.reg k with
  | some true => (w.content k).getD (.missing k)
  | _ => .app k ((P.args k).map (getV t))

def fsTab (P : LPlan) (w : World) : Nat → List V := tab (fsStep P w)

def FS (P : LPlan) (w : World) (i : Nat) : V := getV (fsTab P w (i + 1)) i

/-- What a consumer of node `< k` receives right now: a registered node is read from its store, an
    unregistered one is computed from what ITS arguments give right now. -/
def seenStep (P : LPlan) (w : World) (t : List V) (k : Nat) : V :=
  match P.reg k with
  | some _ => (w.content k).getD (.missing k)
  | none => .app k ((P.args k).map (getV t))

def seenTab (P : LPlan) (w : World) : Nat → List V := tab (seenStep P w)

def seen (P : LPlan) (w : World) (i : Nat) : V := getV (seenTab P w (i + 1)) i

/-- The value the call of node `i` computes from what its arguments give right now. -/
def rawNow (P : LPlan) (w : World) (i : Nat) : V := .app i ((P.args i).map (seen P w))

/-- `t` is larger than every modified time in the world ("modified times increase with every write"). -/
def World.below (w : World) (t : Int) : Prop := ∀ i m, w.mtime i = some m → m < t

/-- Every stored non-source value that the next run would treat as up to date equals its from-scratch value. -/
def Good (P : LPlan) (w : World) : Prop :=
  ∀ i, P.reg i = some false → ∀ v t, w.st i = some (v, t) → isStale P w none i = false → v = FS P w i

end Uberjob.Cache
