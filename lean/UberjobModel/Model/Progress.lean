import UberjobModel.Gen.Progress
/-!
# Progress — notification alphabet, `Legal` (shared by C15 and C20), the bookkeeping of
`uberjob.progress._simple_progress_observer.State`, the update thread / render point, the console section
logic and the sorting of scopes.

Core Lean only (linked into the driver).  Every arithmetic right-hand side, every guard and the string
functions come from `Gen.Progress` (regenerated from /repo/src on every check); this file supplies the
containers (a dict as a key list + functions) and the control structure pinned by `Gen.Progress.shape`.

Sections and scopes are natural-number identifiers: the bookkeeping only ever uses them as dict keys
(hash / `==`), so the harness numbers Python keys by dict-key equality.  What the *values* of scopes look like
matters only for sorting (`PyVal` below).
-/
namespace Uberjob.Progress
open Uberjob.Gen.Progress

/-- (section id, scope id) -/
abbrev Key := Nat × Nat

/-- What a `ProgressObserver` can be told. -/
inductive Notif where
  | enter
  | total (sec sc : Nat) (n : Nat)
  | running (sec sc : Nat)
  | completed (sec sc : Nat)
  | failed (sec sc : Nat)
  | exit
deriving DecidableEq, Repr

namespace Notif

def key? : Notif → Option Key
  | total s c _ => some (s, c)
  | running s c => some (s, c)
  | completed s c => some (s, c)
  | failed s c => some (s, c)
  | _ => none

def isRun (k : Key) : Notif → Bool
  | running s c => (s, c) == k
  | _ => false

def isFin (k : Key) : Notif → Bool
  | completed s c => (s, c) == k
  | failed s c => (s, c) == k
  | _ => false

def isTotal (k : Key) : Notif → Bool
  | total s c _ => (s, c) == k
  | _ => false

def amount (k : Key) : Notif → Nat
  | total s c n => if (s, c) == k then n else 0
  | _ => 0

/-- `running`, `completed` or `failed` of any scope of section `sec` -/
def isAct (sec : Nat) : Notif → Bool
  | running s _ => s == sec
  | completed s _ => s == sec
  | failed s _ => s == sec
  | _ => false

def anyRun : Notif → Bool
  | running _ _ => true
  | _ => false

def anyFin : Notif → Bool
  | completed _ _ => true
  | failed _ _ => true
  | _ => false

def amountPos : Notif → Bool
  | total _ _ n => decide (1 ≤ n)
  | _ => true

end Notif

def runs (k : Key) (l : List Notif) : Nat := l.countP (Notif.isRun k)
def fins (k : Key) (l : List Notif) : Nat := l.countP (Notif.isFin k)
def announced (k : Key) (l : List Notif) : Bool := l.any (Notif.isTotal k)
def totalSum (k : Key) (l : List Notif) : Nat := (l.map (Notif.amount k)).sum
def keysOf (l : List Notif) : List Key := l.filterMap Notif.key?
/-- calls in flight after the notifications `l` -/
def active (l : List Notif) : Int := (l.countP Notif.anyRun : Int) - (l.countP Notif.anyFin : Int)

/-- everything between the first and the last notification -/
def body (l : List Notif) : List Notif := (l.drop 1).dropLast

/-- The part of C15's `Legal` that speaks about what lies between `enter` and `exit`:
* no further `enter`/`exit`;
* the totals of a (section, scope) are announced before its first `running`;
* every `completed|failed` answers an earlier, not yet answered `running` of the same key
  (in every prefix there are at most as many finishes as runnings), and
* at the end every `running` has been answered — together: each `running` has exactly one later
  `completed|failed` for the same key, and nothing is running at `exit`.
All quantifiers are bounded (positions of the list, keys occurring in it), so the predicate is decidable. -/
def LegalBody (b : List Notif) : Prop :=
  Notif.enter ∉ b ∧ Notif.exit ∉ b ∧
  (∀ i, i < b.length → ∀ k ∈ keysOf b, b[i]? = some (.running k.1 k.2) → announced k (b.take i) = true) ∧
  (∀ i, i < b.length + 1 → ∀ k ∈ keysOf b, fins k (b.take i) ≤ runs k (b.take i)) ∧
  (∀ k ∈ keysOf b, fins k b = runs k b)

/-- C15: entered first, exited last and exactly once, and `LegalBody` in between. -/
def Legal (l : List Notif) : Prop :=
  l.head? = some .enter ∧ l.getLast? = some .exit ∧ 2 ≤ l.length ∧ LegalBody (body l)

/-- Every announced amount is at least one (`run` announces `collections.Counter` counts). -/
def PosTotals (b : List Notif) : Prop := ∀ x ∈ b, x.amountPos = true

/-- At every moment a (section, scope) has been reported running at most as often as its announced total. -/
def WithinTotals (b : List Notif) : Prop :=
  ∀ i, i < b.length + 1 → ∀ k ∈ keysOf b, runs k (b.take i) ≤ totalSum k (b.take i)

/-- A total of a section is never announced after a call of that *section* was reported running/completed/failed
    (`run` announces all totals of a section before executing it). -/
def TotalsFirst (b : List Notif) : Prop :=
  ∀ i, i < b.length → ∀ k ∈ keysOf b, (b[i]?).any (Notif.isTotal k) = true → (b.take i).any (Notif.isAct k.1) = false

instance (b : List Notif) : Decidable (LegalBody b) := by unfold LegalBody; infer_instance
instance (l : List Notif) : Decidable (Legal l) := by unfold Legal; infer_instance
instance (b : List Notif) : Decidable (PosTotals b) := by unfold PosTotals; infer_instance
instance (b : List Notif) : Decidable (WithinTotals b) := by unfold WithinTotals; infer_instance
instance (b : List Notif) : Decidable (TotalsFirst b) := by unfold TotalsFirst; infer_instance

/-! ## `State` -/

inductive Err where
  | missingKey      -- `self.section_scope_mapping[section][scope]` on a key that was never announced (KeyError)
  | removeAbsent    -- `self._running_scope_states.remove(x)` with `x` not in the set (KeyError)
deriving DecidableEq, Repr

/-- function update -/
def upd {β : Type} (f : Key → β) (k : Key) (v : β) : Key → β := fun x => if x = k then v else f x

/-- `State`: the two-level dict flattened to its (section, scope) keys in insertion order, the `ScopeState`
    objects, `running_count`, `_prev_time`; `_running_scope_states` is `Cell.inSet`.  Times are rationals. -/
structure PState where
  keys : List Key
  cell : Key → Cell
  weighted : Key → Rat
  rc : Int
  prev : Rat

def PState.init (start : Rat) : PState :=
  { keys := [], cell := fun _ => Cell.init, weighted := fun _ => weightedInit, rc := 0, prev := start }

/-- `update_weighted_elapsed` with `time.time() = t` -/
def uwe (s : PState) (t : Rat) : PState :=
  if uweGuard s.rc then
    { s with
      weighted := fun k =>
        if (s.cell k).inSet then s.weighted k + weightedDelta (uweElapsed t s.prev) s.rc (s.cell k).running
        else s.weighted k
      prev := t }
  else { s with prev := t }

/-- `d[section][scope]` followed by the translated attribute updates -/
def apply (s : PState) (k : Key) (f : Cell → Int → Res) : Except Err PState :=
  if k ∈ s.keys then
    match f (s.cell k) s.rc with
    | .ok c rc => .ok { s with cell := upd s.cell k c, rc := rc }
    | .removeAbsent => .error .removeAbsent
  else .error .missingKey

/-- `.setdefault(section, {}).setdefault(scope, ScopeState())` -/
def ensure (s : PState) (k : Key) : PState :=
  if k ∈ s.keys then s
  else { s with keys := s.keys ++ [k], cell := upd s.cell k Cell.init, weighted := upd s.weighted k weightedInit }

/-- One notification reaching `State` while `time.time()` returns `t`. -/
def stepNotif (s : PState) (t : Rat) : Notif → Except Err PState
  | .enter => .ok s
  | .exit => .ok s
  | .total sec sc n => apply (ensure s (sec, sc)) (sec, sc) (fun c rc => stepTotal c rc n)
  | .running sec sc => apply (uwe s t) (sec, sc) stepRunning
  | .completed sec sc => apply (uwe s t) (sec, sc) stepCompleted
  | .failed sec sc => apply (uwe s t) (sec, sc) stepFailed

def sumWeighted (s : PState) : Rat := (s.keys.map s.weighted).sum
def sumRunning (s : PState) : Int := (s.keys.map (fun k => (s.cell k).running)).sum

/-! ## Observer: notifications, the update thread's render points, the console's section logic -/

/-- ids of the sections the renderers display (`Gen.renderedSections`: "stale" ↦ 0, "run" ↦ 1) -/
def renderedSecs : List Nat := List.range renderedSections.length

def secCells (st : PState) (sec : Nat) : List (Key × Cell) :=
  (st.keys.filter (fun k => k.1 == sec)).map (fun k => (k, st.cell k))

/-- `ConsoleProgressObserver`: `_skipped_sections`, and (ghost) what was last printed for each section. -/
structure Con where
  skipped : List Nat
  printed : Nat → Option (List (Key × Cell))

def Con.init : Con := { skipped := [], printed := fun _ => none }

def conSection (st : PState) (c : Con) (sec : Nat) : Con :=
  let cells := secCells st sec
  if cells.isEmpty then c else
  let isDone := cells.all (fun p => consoleScopeDone p.2.completed p.2.failed p.2.total)
  let printed := if consolePrints isDone (c.skipped.contains sec) then
      (fun s => if s = sec then some cells else c.printed s) else c.printed
  { skipped := if consoleSkipAfter isDone then (if c.skipped.contains sec then c.skipped else sec :: c.skipped)
               else c.skipped.filter (· != sec)
    printed := printed }

/-- console `_render` (counts only) -/
def conRender (st : PState) (c : Con) : Con := renderedSecs.foldl (conSection st) c

/-- One emitted rendering: the counts it shows (`seen` = number of notifications it reflects). -/
structure Out where
  seen : Nat
  keys : List Key
  cell : Key → Cell
  weighted : Key → Rat
  elapsed : Rat

inductive Ev where
  | notif (t : Rat) (n : Notif)     -- a notification, `time.time()` returning `t` inside it
  | wake (t t2 : Rat)               -- `_do_render()` in the update thread; its two clock readings
deriving Repr

structure Obs where
  st : PState
  stale : Bool
  last : Option Rat
  outs : List Out
  start : Rat
  seen : Nat
  con : Con

/-- `SimpleProgressObserver.__init__` (`_stale = True`, `_last_render_time = None`) -/
def Obs.init (start : Rat) : Obs :=
  { st := PState.init start, stale := true, last := none, outs := [], start := start, seen := 0, con := Con.init }

/-- `_do_render` under the lock -/
def doRender (maxInterval : Rat) (o : Obs) (t t2 : Rat) : Obs :=
  if renderCond o.stale o.last t maxInterval then
    let st' := uwe o.st t2
    { o with stale := false, last := some t, st := st'
             outs := o.outs ++ [{ seen := o.seen, keys := st'.keys, cell := st'.cell, weighted := st'.weighted, elapsed := t - o.start }]
             con := conRender st' o.con }
  else o

def Obs.step (maxInterval : Rat) (o : Obs) : Ev → Except Err Obs
  | .notif t n =>
    match stepNotif o.st t n with
    | .ok st => .ok { o with st := st, stale := true, seen := o.seen + 1 }
    | .error e => .error e
  | .wake t t2 => .ok (doRender maxInterval o t t2)

def Obs.run (maxInterval : Rat) (o : Obs) : List Ev → Except Err Obs
  | [] => .ok o
  | ev :: evs =>
    match o.step maxInterval ev with
    | .ok o' => Obs.run maxInterval o' evs
    | .error e => .error e

def notifsOf : List Ev → List Notif
  | [] => []
  | .notif _ n :: evs => n :: notifsOf evs
  | .wake _ _ :: evs => notifsOf evs

/-- The trace-only specification of "wall-clock time with at least one call running": the clock is read at every
    `running|completed|failed`; between two readings the number of calls in flight is constant. -/
structure Busy where
  prev : Rat
  act : Int
  acc : Rat

def Busy.step (b : Busy) : Ev → Busy
  | .notif t (.running _ _) => { prev := t, act := b.act + 1, acc := b.acc + (if 0 < b.act then t - b.prev else 0) }
  | .notif t (.completed _ _) => { prev := t, act := b.act - 1, acc := b.acc + (if 0 < b.act then t - b.prev else 0) }
  | .notif t (.failed _ _) => { prev := t, act := b.act - 1, acc := b.acc + (if 0 < b.act then t - b.prev else 0) }
  | _ => b

/-- time in `[start, T]` during which at least one call was in flight (`T` ≥ the last notification's time) -/
def busyUpTo (start : Rat) (evs : List Ev) (T : Rat) : Rat :=
  let b := evs.foldl Busy.step { prev := start, act := 0, acc := 0 }
  b.acc + (if 0 < b.act then T - b.prev else 0)

/-! ## Renderer guards -/

/-- HTML `_render_scope` divides by `scope_state.total` for every scope of a displayed section, and once more by the
    sum of the totals (footer) when the section has more than one scope: no `ZeroDivisionError` iff … -/
def htmlRenderOk (st : PState) : Bool :=
  renderedSecs.all (fun sec =>
    let cells := secCells st sec
    cells.all (fun p => p.2.total != 0) &&
      (!(decide (cells.length > 1)) || ((cells.map (fun p => p.2.total)).sum != 0)))

/-! ## Sorting scopes -/

/-- A sort whose comparison may raise (`none`), as `sorted(…, key=…)` with keys whose `<` can raise `TypeError`:
    insertion sort, stable; raises as soon as a comparison it needs raises. -/
def insertBy {α : Type} (lt : α → α → Option Bool) (x : α) : List α → Option (List α)
  | [] => some [x]
  | y :: ys =>
    match lt y x with
    | none => none
    | some false => some (x :: y :: ys)
    | some true => (insertBy lt x ys).map (y :: ·)

/-- elements are inserted from the right and `x` (which came before all of `ys`) passes only strictly smaller
    elements, so equal keys keep their order (stable, like `sorted`) -/
def sortBy {α : Type} (lt : α → α → Option Bool) : List α → Option (List α)
  | [] => some []
  | x :: xs => (sortBy lt xs).bind (insertBy lt x)

/-- `sorted_scope_items` as generated: with the fallback (`try … except TypeError`) or without. -/
def sortedScopeItems {α : Type} (hasFallback : Bool) (natural : α → α → Option Bool) (fallback : α → α → Bool)
    (xs : List α) : Option (List α) :=
  match sortBy natural xs with
  | some r => some r
  | none => if hasFallback then sortBy (fun a b => some (fallback a b)) xs else none

/-- Scope values (what `Plan.scope` may contain: hashable, equatable). -/
inductive Atom where
  | int (i : Int)
  | str (s : String)
  | none
  | bool (b : Bool)
  | cplx (re im : Int)
  | obj (id : Nat)          -- an instance of a class with identity equality and no `__lt__`
deriving DecidableEq, Repr

inductive PyVal where
  | atom (a : Atom)
  | tup (l : List Atom)
deriving DecidableEq, Repr

namespace Atom

def num? : Atom → Option Int
  | int i => some i
  | bool b => some (if b then 1 else 0)
  | _ => Option.none

/-- Python `==` -/
def pyEq : Atom → Atom → Bool
  | str a, str b => a == b
  | none, none => true
  | cplx a b, cplx c d => a == c && b == d
  | cplx a b, x => match x.num? with | some i => a == i && b == 0 | Option.none => false
  | x, cplx a b => match x.num? with | some i => a == i && b == 0 | Option.none => false
  | obj a, obj b => a == b
  | x, y => match x.num?, y.num? with | some i, some j => i == j | _, _ => false

/-- Python `<` (`none` = TypeError) -/
def pyLt? : Atom → Atom → Option Bool
  | str a, str b => some (decide (a < b))
  | x, y => match x.num?, y.num? with | some i, some j => some (decide (i < j)) | _, _ => Option.none

end Atom

/-- tuple `<`: the first position where the elements differ (`==`) decides with `<`; else the shorter is smaller -/
def tupLt? : List Atom → List Atom → Option Bool
  | [], [] => some false
  | [], _ :: _ => some true
  | _ :: _, [] => some false
  | a :: l, b :: m => if a.pyEq b then tupLt? l m else a.pyLt? b

def tupEq : List Atom → List Atom → Bool
  | [], [] => true
  | a :: l, b :: m => a.pyEq b && tupEq l m
  | _, _ => false

namespace PyVal
def pyEq : PyVal → PyVal → Bool
  | atom a, atom b => a.pyEq b
  | tup l, tup m => tupEq l m
  | _, _ => false

def pyLt? : PyVal → PyVal → Option Bool
  | atom a, atom b => a.pyLt? b
  | tup l, tup m => tupLt? l m
  | _, _ => Option.none
end PyVal

/-- One element of a scope as the key functions see it: `str(type(x))`, `str(x)`, and `x` itself. -/
structure ScopeElt where
  typeName : String
  strValue : String
  value : PyVal
deriving DecidableEq, Repr

/-- `_universal_sort_key(*scope) < _universal_sort_key(*scope')`: tuples of `(str(type(x)), x)`. -/
def naturalLt? : List ScopeElt → List ScopeElt → Option Bool
  | [], [] => some false
  | [], _ :: _ => some true
  | _ :: _, [] => some false
  | a :: l, b :: m =>
    if a.typeName == b.typeName && a.value.pyEq b.value then naturalLt? l m
    else if a.typeName != b.typeName then some (decide (a.typeName < b.typeName))
    else a.value.pyLt? b.value

/-- `_fallback_sort_key(*scope)`: a tuple of pairs `(str(type(x)), str(x))`.  Python compares tuples of pairs
    lexicographically (first differing pair, then its first differing component; a proper prefix is smaller), which is
    the lexicographic order of the flattened list of strings (all pairs have length two); Python compares `str` by
    code point, as Lean's `String.<` does. -/
def fallbackKey (s : List ScopeElt) : List String := s.flatMap (fun e => [e.typeName, e.strValue])

def fallbackLt (a b : List ScopeElt) : Bool := decide (fallbackKey a < fallbackKey b)

end Uberjob.Progress
