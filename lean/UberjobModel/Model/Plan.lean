import UberjobModel.Gen.Plan
/-!
# Plan / gather / call / unpack / get_argument_nodes / direct evaluation

Model of `src/uberjob/_plan.py` (`_call`, `_gather`, `lit`, `unpack`), `graph.py` (edge keys,
`get_argument_nodes`), `_builtins.py` (`gather_*`, `unpack`) and of the value flow of
`_execution/run_physical.py` (`BoundCall.run`, result slots).  Core Lean only.

Numbering.  Nodes are `Nat`, node `i` is `st.nodes[i]`.  Python creates the `Call` object before it gathers the
arguments, the model allocates the number of a call after the numbers of its arguments; nodes are identified by
object identity in Python, so the numbers are only the model's names.  What creation order does influence in the
real code is the iteration order of networkx adjacency (`in_edges`); `getArgumentNodes` is proved independent of
the order of the edge list (`C02_args_order_independent`).
-/
namespace Uberjob.Plan
open Uberjob.Gen.Plan (Ty GFn gatherLookup gfnBuilds unpackTake unpackOk)

/-- Edge keys of the call multigraph (`graph.py`: `Dependency`, `PositionalArg(index)`, `KeywordArg(name, index)`). -/
inductive Key where
  | dep
  | pos (i : Nat)
  | kw (name : String) (i : Nat)
deriving DecidableEq, Repr

structure Edge where
  src : Nat
  dst : Nat
  key : Key
deriving DecidableEq, Repr

/-- Python values as far as `gather` can see them.  Every object carries an identity tag `id`
    (same `id` = the very same object; the tag `0` is used for the transient `(key, value)` tuples that
    `dict.items()` creates).  `int k` is an `int` object (compared by value only).  `opaque` is an instance of a
    subclass of a container or any other object: `type(root)` is not one of the four built-in container types.
    `it` says whether iterating it yields `xs`. -/
inductive PV where
  | atom (id : Nat)
  | int (k : Nat)
  | node (n : Nat)
  | list (id : Nat) (xs : List PV)
  | tuple (id : Nat) (xs : List PV)
  | set (id : Nat) (xs : List PV)
  | dict (id : Nat) (kvs : List (PV × PV))
  | opaque (id : Nat) (it : Bool) (xs : List PV)
deriving Repr

namespace PV

def isNode : PV → Bool
  | .node _ => true
  | _ => false

/-- `type(root)` as seen by `GATHER_LOOKUP.get`. -/
def ty : PV → Ty
  | .list .. => .list
  | .tuple .. => .tuple
  | .set .. => .set
  | .dict .. => .dict
  | _ => .other

mutual
/-- Is a `Node` reachable through exact built-in containers only? -/
def containsNode : PV → Bool
  | .node _ => true
  | .list _ xs => anyContains xs
  | .tuple _ xs => anyContains xs
  | .set _ xs => anyContains xs
  | .dict _ kvs => anyContainsKV kvs
  | _ => false
def anyContains : List PV → Bool
  | [] => false
  | x :: xs => containsNode x || anyContains xs
def anyContainsKV : List (PV × PV) → Bool
  | [] => false
  | (k, v) :: rest => containsNode k || containsNode v || anyContainsKV rest
end

mutual
/-- Every node mentioned anywhere in the value (also inside opaque objects) is `< b`. -/
def nodesBelow (b : Nat) : PV → Bool
  | .node n => n < b
  | .list _ xs => nodesBelowL b xs
  | .tuple _ xs => nodesBelowL b xs
  | .set _ xs => nodesBelowL b xs
  | .dict _ kvs => nodesBelowKV b kvs
  | .opaque _ _ xs => nodesBelowL b xs
  | _ => true
def nodesBelowL (b : Nat) : List PV → Bool
  | [] => true
  | x :: xs => nodesBelow b x && nodesBelowL b xs
def nodesBelowKV (b : Nat) : List (PV × PV) → Bool
  | [] => true
  | (k, v) :: rest => nodesBelow b k && nodesBelow b v && nodesBelowKV b rest
end

end PV

/-- Functions a `Call` node can hold: a user function (uninterpreted), the four gather built-ins,
    `_builtins.unpack`, `operator.getitem` (as created by `Plan.unpack`). -/
inductive Fn where
  | user (k : Nat)
  | gather (g : GFn)
  | unpack
  | getitem
deriving DecidableEq, Repr

inductive NodeKind where
  | lit (v : PV)
  | call (f : Fn)
deriving Repr

/-- The plan: node `i` is `nodes[i]` (the literal table is the `lit` entries), keyed multigraph edges. -/
structure PlanSt where
  nodes : List NodeKind := []
  edges : List Edge := []
deriving Repr

/-! ## Building (`_plan.py`) -/

/-- `Plan.lit(value)`. -/
def lit (st : PlanSt) (v : PV) : PlanSt × Nat :=
  ({ st with nodes := st.nodes ++ [.lit v] }, st.nodes.length)

/-- Tail of `_gather`: `value if isinstance(value, Node) else self.lit(value)`. -/
def asNode (st : PlanSt) : PV → PlanSt × Nat
  | .node n => (st, n)
  | v => lit st v

def asNodes (st : PlanSt) : List PV → PlanSt × List Nat
  | [] => (st, [])
  | r :: rs =>
    let (st1, n) := asNode st r
    let (st2, ns) := asNodes st1 rs
    (st2, n :: ns)

def posEdges (c : Nat) : Nat → List Nat → List Edge
  | _, [] => []
  | i, a :: as => ⟨a, c, .pos i⟩ :: posEdges c (i + 1) as

def kwEdges (c : Nat) : Nat → List (String × Nat) → List Edge
  | _, [] => []
  | i, (name, a) :: kws => ⟨a, c, .kw name i⟩ :: kwEdges c (i + 1) kws

/-- `_call` once its arguments are nodes: the `Call` node, one `PositionalArg(index)` edge per positional
    argument (`enumerate(args)`), one `KeywordArg(name, index)` edge per keyword argument
    (`enumerate(kwargs.items())`). -/
def mkCall (st : PlanSt) (f : Fn) (as : List Nat) (kws : List (String × Nat)) : PlanSt × Nat :=
  let c := st.nodes.length
  ({ nodes := st.nodes ++ [.call f], edges := st.edges ++ posEdges c 0 as ++ kwEdges c 0 kws }, c)

/-- `return self._call(stack_frame, gather_fn, *children)` when some child is a `Node`, otherwise `root`. -/
def rebuild (st : PlanSt) (g : GFn) (cs : List PV) (root : PV) : PlanSt × PV :=
  if cs.any PV.isNode then
    let (st1, as) := asNodes st cs
    let (st2, c) := mkCall st1 (.gather g) as []
    (st2, .node c)
  else (st, root)

mutual
/-- `_gather.recurse` (`_plan.py`): looks `type(root)` up in `GATHER_LOOKUP`, recurses into the items
    (`root.items()` for a dict: transient 2-tuples), and builds a gather call only when some child came back as a
    `Node`; otherwise the very object `root` is returned. -/
def recurse (st : PlanSt) : PV → PlanSt × PV
  | .list id xs =>
    match gatherLookup .list with
    | none => (st, .list id xs)
    | some g => let (st1, cs) := recurseList st xs; rebuild st1 g cs (.list id xs)
  | .tuple id xs =>
    match gatherLookup .tuple with
    | none => (st, .tuple id xs)
    | some g => let (st1, cs) := recurseList st xs; rebuild st1 g cs (.tuple id xs)
  | .set id xs =>
    match gatherLookup .set with
    | none => (st, .set id xs)
    | some g => let (st1, cs) := recurseList st xs; rebuild st1 g cs (.set id xs)
  | .dict id kvs =>
    match gatherLookup .dict with
    | none => (st, .dict id kvs)
    | some g => let (st1, cs) := recurseKVs st kvs; rebuild st1 g cs (.dict id kvs)
  | v => (st, v)
def recurseList (st : PlanSt) : List PV → PlanSt × List PV
  | [] => (st, [])
  | x :: xs =>
    let (st1, c) := recurse st x
    let (st2, cs) := recurseList st1 xs
    (st2, c :: cs)
/-- the items of a dict: each `(k, v)` is a (transient) exact tuple and is treated as one -/
def recurseKVs (st : PlanSt) : List (PV × PV) → PlanSt × List PV
  | [] => (st, [])
  | (k, v) :: rest =>
    let (st3, item) :=
      match gatherLookup .tuple with
      | none => (st, PV.tuple 0 [k, v])
      | some g =>
        let (st1, k') := recurse st k
        let (st2, v') := recurse st1 v
        rebuild st2 g [k', v'] (.tuple 0 [k, v])
    let (st4, cs) := recurseKVs st3 rest
    (st4, item :: cs)
end

/-- `Plan._gather` / `Plan.gather`. -/
def gather (st : PlanSt) (v : PV) : PlanSt × Nat :=
  let (st1, r) := recurse st v
  asNode st1 r

def gatherList (st : PlanSt) : List PV → PlanSt × List Nat
  | [] => (st, [])
  | v :: vs =>
    let (st1, n) := gather st v
    let (st2, ns) := gatherList st1 vs
    (st2, n :: ns)

def gatherKw (st : PlanSt) : List (String × PV) → PlanSt × List (String × Nat)
  | [] => (st, [])
  | (name, v) :: vs =>
    let (st1, n) := gather st v
    let (st2, ns) := gatherKw st1 vs
    (st2, (name, n) :: ns)

/-- `Plan._call` / `Plan.call`: every argument goes through `_gather`, positional ones first. -/
def addCall (st : PlanSt) (f : Fn) (args : List PV) (kwargs : List (String × PV)) : PlanSt × Nat :=
  let (st1, as) := gatherList st args
  let (st2, kws) := gatherKw st1 kwargs
  mkCall st2 f as kws

def getitems (st : PlanSt) (t : Nat) : Nat → Nat → PlanSt × List Nat
  | _, 0 => (st, [])
  | i, k + 1 =>
    let (st1, c) := addCall st .getitem [.node t, .int i] []
    let (st2, cs) := getitems st1 t (i + 1) k
    (st2, c :: cs)

/-- `Plan.unpack(iterable, length)`. -/
def unpack (st : PlanSt) (v : PV) (length : Nat) : PlanSt × List Nat :=
  let (st1, t) := addCall st .unpack [v, .int length] []
  getitems st1 t 0 length

/-- `Plan.add_dependency`. -/
def addDep (st : PlanSt) (a b : Nat) : PlanSt := { st with edges := st.edges ++ [⟨a, b, .dep⟩] }

/-! ## `get_argument_nodes` (`graph.py`) -/

def inEdges (es : List Edge) (c : Nat) : List Edge := es.filter (fun e => e.dst == c)

def posPairs (es : List Edge) : List (Nat × Nat) :=
  es.filterMap (fun e => match e.key with
    | .pos i => some (i, e.src)
    | _ => none)

def kwPairs (es : List Edge) : List (Nat × (String × Nat)) :=
  es.filterMap (fun e => match e.key with
    | .kw name i => some (i, (name, e.src))
    | _ => none)

/-- `l = [None] * n` then `l[index] = x` for every pair, in order.  `none` = IndexError. -/
def placeAll {α : Type} (n : Nat) (ps : List (Nat × α)) : Option (List (Option α)) :=
  if ps.all (fun p => p.1 < n) then
    some (ps.foldl (fun acc p => acc.set p.1 (some p.2)) (List.replicate n none))
  else none

def allSome {α : Type} : List (Option α) → Option (List α)
  | [] => some []
  | none :: _ => none
  | some a :: rest => (allSome rest).map (a :: ·)

/-- `dict(pairs)` for string keys: first occurrence fixes the position, the last value wins. -/
def pyDictS {α : Type} (ps : List (String × α)) : List (String × α) :=
  ps.foldl (fun acc p =>
    if acc.any (fun q => q.1 == p.1) then acc.map (fun q => if q.1 == p.1 then (q.1, p.2) else q)
    else acc ++ [p]) []

/-- `get_argument_nodes(graph, call)` followed by the slot look-ups of `_create_bound_call`.
    `none` = the real code raises (index out of range, or a placeholder `None` left in a list). -/
def getArgumentNodes (es : List Edge) (c : Nat) : Option (List Nat × List (String × Nat)) :=
  let ins := inEdges es c
  let pp := posPairs ins
  let kp := kwPairs ins
  match placeAll pp.length pp, placeAll kp.length kp with
  | some a, some k =>
    match allSome a, allSome k with
    | some a, some k => some (a, pyDictS k)
    | _, _ => none
  | _, _ => none

/-! ## Run-time values -/

/-- Values at run time.  `tag = some id`: the very object the user supplied with identity `id`;
    `tag = none`: a container built during the run (fresh identity).  `app f args kwargs` is the Herbrand result of
    user function `f`.  `fail`: no value — the call (or one it needs) raised. -/
inductive Val where
  | atom (id : Nat)
  | int (k : Nat)
  | nodeObj (n : Nat)
  | opaque (id : Nat) (it : Bool) (xs : List PV)
  | list (tag : Option Nat) (xs : List Val)
  | tuple (tag : Option Nat) (xs : List Val)
  | set (tag : Option Nat) (xs : List Val)
  | dict (tag : Option Nat) (kvs : List (Val × Val))
  | app (f : Nat) (args : List Val) (kwargs : List (String × Val))
  | fail
deriving Repr

namespace Val

def isFail : Val → Bool
  | .fail => true
  | _ => false

mutual
/-- Python `==` on the values that occur (identity tags are ignored; atoms, node objects and opaque objects
    compare by identity; sets and dicts are compared as sets / mappings). -/
def pyEq : Val → Val → Bool
  | .atom a, .atom b => a == b
  | .int a, .int b => a == b
  | .nodeObj a, .nodeObj b => a == b
  | .opaque a _ _, .opaque b _ _ => a == b
  | .list _ xs, .list _ ys => pyEqList xs ys
  | .tuple _ xs, .tuple _ ys => pyEqList xs ys
  | .set _ xs, .set _ ys => xs.length == ys.length && allIn xs ys
  | .dict _ kvs, .dict _ kvs' => kvs.length == kvs'.length && allKVIn kvs kvs'
  | .app f as ks, .app g bs ls => f == g && pyEqList as bs && pyEqKw ks ls
  | _, _ => false
termination_by structural x => x
def pyEqList : List Val → List Val → Bool
  | [], [] => true
  | x :: xs, y :: ys => pyEq x y && pyEqList xs ys
  | _, _ => false
termination_by structural x => x
def allIn : List Val → List Val → Bool
  | [], _ => true
  | x :: xs, ys => ys.any (fun y => pyEq x y) && allIn xs ys
termination_by structural x => x
def allKVIn : List (Val × Val) → List (Val × Val) → Bool
  | [], _ => true
  | (k, v) :: rest, kvs' => kvs'.any (fun q => pyEq k q.1 && pyEq v q.2) && allKVIn rest kvs'
termination_by structural x => x
def pyEqKw : List (String × Val) → List (String × Val) → Bool
  | [], [] => true
  | (n, x) :: xs, (m, y) :: ys => n == m && pyEq x y && pyEqKw xs ys
  | _, _ => false
termination_by structural x => x
end

mutual
def hashable : Val → Bool
  | .atom _ => true
  | .int _ => true
  | .nodeObj _ => true
  | .opaque .. => true
  | .app .. => true
  | .tuple _ xs => hashableAll xs
  | _ => false
def hashableAll : List Val → Bool
  | [] => true
  | x :: xs => hashable x && hashableAll xs
end

/-- `set(args)`: insertion order, an element equal to an earlier one is dropped (the earlier object stays). -/
def pySet (xs : List Val) : List Val :=
  xs.foldl (fun acc x => if acc.any (fun y => pyEq y x) then acc else acc ++ [x]) []

/-- `dict(pairs)`: the first occurrence of a key fixes position and key object, the last value wins. -/
def pyDict (kvs : List (Val × Val)) : List (Val × Val) :=
  kvs.foldl (fun acc p =>
    if acc.any (fun q => pyEq q.1 p.1) then acc.map (fun q => if pyEq q.1 p.1 then (q.1, p.2) else q)
    else acc ++ [p]) []

def toPairs : List Val → Option (List (Val × Val))
  | [] => some []
  | .tuple _ [k, v] :: rest => (toPairs rest).map ((k, v) :: ·)
  | _ => none

/-- `list(args)`, `tuple(args)`, `set(args)`, `dict(args)`; `fail` = TypeError (unhashable element / key). -/
def build (t : Ty) (args : List Val) : Val :=
  match t with
  | .list => .list none args
  | .tuple => .tuple none args
  | .set => if hashableAll args then .set none (pySet args) else .fail
  | .dict =>
    match toPairs args with
    | none => .fail
    | some kvs => if hashableAll (kvs.map (·.1)) then .dict none (pyDict kvs) else .fail
  | .other => .fail

end Val

mutual
/-- A supplied object as a run-time value: the very object (all identity tags kept). -/
def embed : PV → Val
  | .atom id => .atom id
  | .int k => .int k
  | .node n => .nodeObj n
  | .list id xs => .list (some id) (embedList xs)
  | .tuple id xs => .tuple (some id) (embedList xs)
  | .set id xs => .set (some id) (embedList xs)
  | .dict id kvs => .dict (some id) (embedKVs kvs)
  | .opaque id it xs => .opaque id it xs
def embedList : List PV → List Val
  | [] => []
  | x :: xs => embed x :: embedList xs
def embedKVs : List (PV × PV) → List (Val × Val)
  | [] => []
  | (k, v) :: rest => (embed k, embed v) :: embedKVs rest
end

/-- What iterating the value yields (`none`: not iterable → TypeError).  Sets are listed in insertion order. -/
def iterItems : Val → Option (List Val)
  | .list _ xs => some xs
  | .tuple _ xs => some xs
  | .set _ xs => some xs
  | .dict _ kvs => some (kvs.map (·.1))
  | .opaque _ true xs => some (embedList xs)
  | _ => none

/-- Applying the function of a call to argument values (`BoundCall.run`: `fn(*args, **kwargs)`).
    A call one of whose arguments has no value is never started. -/
def applyFn (f : Fn) (args : List Val) (kwargs : List (String × Val)) : Val :=
  if args.any Val.isFail || kwargs.any (fun p => p.2.isFail) then .fail else
  match f with
  | .user k => .app k args kwargs
  | .gather g => Val.build (gfnBuilds g) args
  | .unpack =>
    match args with
    | [it, .int n] =>
      match iterItems it with
      | none => .fail
      | some xs =>
        let t := xs.take (unpackTake n)                 -- tuple(itertools.islice(iterable, length + 1))
        if unpackOk n t.length then .tuple none t else .fail
    | _ => .fail
  | .getitem =>
    match args with
    | [.tuple _ xs, .int i] => xs.getD i .fail
    | _ => .fail

/-! ## Direct evaluation -/

/-- The value of node `n` given the values `ρ` of the other nodes: a literal is its own value; a call applies
    its function to the values of its argument nodes (`get_argument_nodes`: positional by index, keyword in order). -/
def evalNode (st : PlanSt) (ρ : Nat → Val) (n : Nat) : Val :=
  match st.nodes[n]? with
  | none => .fail
  | some (.lit v) => embed v
  | some (.call f) =>
    match getArgumentNodes st.edges n with
    | none => .fail
    | some (as, kws) => applyFn f (as.map ρ) (kws.map (fun p => (p.1, ρ p.2)))

/-- The table of the values of nodes `0 .. k-1`, filled in the order of the (topological) numbering. -/
def evalAll (st : PlanSt) : Nat → List Val
  | 0 => []
  | k + 1 =>
    let vs := evalAll st k
    vs ++ [evalNode st (fun p => vs.getD p .fail) k]

/-- Direct evaluation of node `n`. -/
def eval (st : PlanSt) (n : Nat) : Val := (evalAll st (n + 1)).getD n .fail

/-! ## The specification: substitution -/

/-- `if any child failed: fail` (the gather call is never started). -/
def strict (args : List Val) (r : Val) : Val := if args.any Val.isFail then .fail else r

mutual
/-- `v` with every `Node` replaced by its value `ρ n`: containers of the four exact built-in types that contain
    a node are rebuilt with Python's constructors (fresh identity), everything else is the very object. -/
def subst (ρ : Nat → Val) : PV → Val
  | .node n => ρ n
  | .list id xs =>
    if PV.anyContains xs then strict (substList ρ xs) (Val.build .list (substList ρ xs)) else embed (.list id xs)
  | .tuple id xs =>
    if PV.anyContains xs then strict (substList ρ xs) (Val.build .tuple (substList ρ xs)) else embed (.tuple id xs)
  | .set id xs =>
    if PV.anyContains xs then strict (substList ρ xs) (Val.build .set (substList ρ xs)) else embed (.set id xs)
  | .dict id kvs =>
    if PV.anyContainsKV kvs then strict (substKVs ρ kvs) (Val.build .dict (substKVs ρ kvs)) else embed (.dict id kvs)
  | v => embed v
def substList (ρ : Nat → Val) : List PV → List Val
  | [] => []
  | x :: xs => subst ρ x :: substList ρ xs
/-- the items of a dict as 2-tuples (`dict(args)` consumes them) -/
def substKVs (ρ : Nat → Val) : List (PV × PV) → List Val
  | [] => []
  | (k, v) :: rest =>
    (if PV.containsNode k || PV.containsNode v then
       strict [subst ρ k, subst ρ v] (Val.build .tuple [subst ρ k, subst ρ v])
     else embed (.tuple 0 [k, v])) :: substKVs ρ rest
end

/-! ## Execution by slots in an arbitrary order (`run_physical.py`) -/

def isLit (st : PlanSt) (n : Nat) : Bool :=
  match st.nodes[n]? with
  | some (.lit _) => true
  | _ => false

/-- Reading the result of node `p`: a `Literal` node is its own `result_lookup` entry, a call has a `Slot`. -/
def readSlot (st : PlanSt) (slots : Nat → Val) (p : Nat) : Val :=
  match st.nodes[p]? with
  | some (.lit v) => embed v
  | _ => slots p

/-- Processing node `n`: reads the slots of its argument nodes, writes its own slot, touches nothing else. -/
def execNode (st : PlanSt) (slots : Nat → Val) (n : Nat) : Nat → Val :=
  fun m => if m = n then evalNode st (readSlot st slots) n else slots m

/-! ## What `run` returns (`_run.py`: gather the output on a copy, prune to its ancestors, run, read the slot) -/

def neededAux (st : PlanSt) : Nat → List Nat → List Nat
  | 0, m => m
  | k + 1, m => neededAux st k (if m.contains k then m ++ (inEdges st.edges k).map (·.src) else m)

/-- The ancestors of `out` (through every kind of edge), `out` included: what `prune_plan` keeps. -/
def needed (st : PlanSt) (out : Nat) : List Nat := neededAux st st.nodes.length [out]

/-- `uberjob.run(plan, output=node)`: `fail` (a `CallError`) if some needed call has no value. -/
def runResult (st : PlanSt) (out : Nat) : Val :=
  let tbl := evalAll st st.nodes.length
  if (needed st out).any (fun n => (tbl.getD n .fail).isFail) then .fail else tbl.getD out .fail

/-! ## Well-formedness -/

/-- Every edge goes from a smaller to a larger number, inside the node table. -/
def WF (st : PlanSt) : Prop := ∀ e ∈ st.edges, e.src < e.dst ∧ e.dst < st.nodes.length

end Uberjob.Plan
