/-
  Heap model of the objects `uberjob.run` / `uberjob.render` are given and create (C13).

  Objects have identities (addresses).  A Plan object points to its graph object and carries `_scope`; a graph
  object (networkx.MultiDiGraph) holds the node table (node object ↦ attribute dict) and the edge table
  (source, target, key, attribute dict); a node object carries `scope`; a Registry object maps node objects to
  RegistryValue objects (store, is_source, stack_frame).

  `Plan.copy` allocates a new graph object and a new plan object that SHARE the node objects and the edge keys
  with the original (this is what `networkx.MultiDiGraph.copy` does: the structure and the attribute dicts are
  copied, node and key objects are not).

  The run path is a program over the variable `plan` of `run` (`cur`), the variable `plan` of `_get_stale_nodes`
  (`tmp`) and "the node `plan._call` just returned" (`last`); WHICH object an instruction writes is determined by
  the code's variable flow (the `inplace` flags regenerated into `Gen.Purity.flow`), WHAT it writes is arbitrary
  (universally quantified `Script`).

  Allocation: the k-th object allocated by the thread with index `tid` gets address `base + 2k + tid`
  (`base` = any bound above all existing objects).  A modelling device: it makes "fresh" deterministic and lets
  two concurrent runs allocate without sharing a counter; nothing depends on the numeric value of an address.

  Core Lean only (linked into the driver).
-/
import UberjobModel.Gen.Purity
namespace Uberjob.Heap
open Uberjob.Gen.Purity (Flow)

/-- hashable values compared by equality: scope components, edge keys, attribute names/values, callables -/
abbrev Atom := Nat
abbrev Attrs := List (Atom × Atom)

structure Edge where
  src : Nat
  dst : Nat
  key : Atom        -- PositionalArg(i) / KeywordArg(name, i) / Dependency(): compared with ==, shared by copies
  attrs : Attrs
deriving DecidableEq, Repr

inductive Obj where
  | plan (graph : Nat) (scope : List Atom)
  | graph (nodes : List (Nat × Attrs)) (edges : List Edge) (gattrs : Attrs)
  | node (kind : Nat) (scope : List Atom)
  | registry (mapping : List (Nat × Nat))
  | entry (store : Nat) (isSource : Bool) (frame : Nat)
deriving DecidableEq, Repr

abbrev Heap := Nat → Option Obj

def upd (h : Heap) (a : Nat) (o : Obj) : Heap := fun x => if x = a then some o else h x

abbrev Eff := Nat × Obj
def applyEffs (h : Heap) (es : List Eff) : Heap := es.foldl (fun h e => upd h e.1 e.2) h

/-- who allocates: addresses `base + 2k + tid` -/
structure Who where
  base : Nat
  tid : Nat

def Who.addr (w : Who) (k : Nat) : Nat := w.base + 2 * k + w.tid

/-- thread-local state of one call of `run` / `render` -/
structure T where
  nxt : Nat             -- number of objects allocated so far
  cur : Nat              -- the variable `plan` of `run` (`graph` of `render`)
  tmp : Option Nat       -- the variable `plan` of `_get_stale_nodes`
  last : Option Nat      -- the node `plan._call` / `plan.lit` returned most recently
  log : List Nat         -- addresses of EXISTING objects written so far (allocation is not a write)
deriving DecidableEq, Repr

def T.init (p : Nat) : T := ⟨0, p, none, none, []⟩

/-! ### pure operations on the tables of a graph object (networkx.MultiDiGraph) -/

def updAttrs (old new : Attrs) : Attrs := new ++ old.filter (fun kv => !(new.any (fun x => x.1 == kv.1)))

/-- `G.add_node(n, **a)`: a new row, or the existing row's attribute dict updated -/
def gAddNode (ns : List (Nat × Attrs)) (n : Nat) (a : Attrs) : List (Nat × Attrs) :=
  if ns.any (fun e => e.1 == n) then ns.map (fun e => if e.1 == n then (n, updAttrs e.2 a) else e)
  else ns ++ [(n, a)]

/-- `G.add_edge(u, v, key, **a)`: endpoints are added if missing; an edge with an equal key is updated, not duplicated -/
def gAddEdge (es : List Edge) (u v : Nat) (k : Atom) (a : Attrs) : List Edge :=
  if es.any (fun e => e.src == u && e.dst == v && e.key == k) then
    es.map (fun e => if e.src == u && e.dst == v && e.key == k then { e with attrs := updAttrs e.attrs a } else e)
  else es ++ [⟨u, v, k, a⟩]

def gRemoveEdge (es : List Edge) (u v : Nat) (k : Atom) : List Edge :=
  es.filter (fun e => !(e.src == u && e.dst == v && e.key == k))

inductive Mut where
  | newNode (kind : Nat)                       -- `plan._call` / `plan.lit` / `Scope()`: a NEW node object with
                                               --   scope = plan._scope, added to plan.graph
  | addNode (n : Nat) (a : Attrs)               -- `graph.add_node(n, **a)` for an existing node object
  | addEdge (u v : Nat) (k : Atom) (a : Attrs)
  | removeEdge (u v : Nat) (k : Atom)
  | removeNode (n : Nat)                        -- with its incident edges
  | setPlanScope (s : List Atom)               -- `plan._scope = …` (entering / leaving `with plan.scope(...)`)
  | scopeOfLast (s : List Atom)                -- `call.scope = …` on the node `plan._call` just returned
  | scopeOf (n : Nat) (kind : Nat) (s : List Atom)  -- `x.scope = …` on an ARBITRARY node object — not in the source
deriving DecidableEq, Repr

def Mut.tame : Mut → Bool
  | .scopeOf .. => false
  | _ => true

inductive Instr where
  | getMutable (inplace : Bool)   -- `plan = get_mutable_plan(plan, inplace=…)`
  | forkTmp (inplace : Bool)      -- `_get_stale_nodes`: `plan = prune_source_literals(plan, inplace=…)` binds ITS `plan`
  | mut (onTmp : Bool) (m : Mut)  -- a mutation through the plan held by `tmp` / `cur`
  | wild (a : Nat) (o : Obj)       -- a write the model cannot place (only emitted if `flow.registryWrites`)
deriving DecidableEq, Repr

def Instr.tame : Instr → Bool
  | .mut _ m => m.tame
  | .wild .. => false
  | _ => true

/-- What one instruction may read: the plan objects of the two variables, their graph objects, the last node. -/
structure View where
  curO : Option Obj
  curG : Option Obj
  tmpO : Option Obj
  tmpG : Option Obj
  lastO : Option Obj
deriving DecidableEq, Repr

def graphOf : Option Obj → Option Nat
  | some (.plan g _) => some g
  | _ => none

def view (t : T) (h : Heap) : View :=
  { curO := h t.cur
    curG := (graphOf (h t.cur)).bind h
    tmpO := t.tmp.bind h
    tmpG := (graphOf (t.tmp.bind h)).bind h
    lastO := t.last.bind h }

def logw (t : T) (a : Nat) : T := { t with log := t.log ++ [a] }

/-- `Plan.copy`: `new_plan = Plan(); new_plan.graph = self.graph.copy()` — a new graph object with the same rows
    (node objects and keys shared, attribute dicts copied) and a new plan object with an empty scope. -/
def copyPlan (w : Who) (t : T) (po go : Option Obj) : Option (T × List Eff × Nat) :=
  match po, go with
  | some (.plan _ _), some (.graph ns es ga) =>
    let ag := w.addr t.nxt
    let ap := w.addr (t.nxt + 1)
    some ({ t with nxt := t.nxt + 2 }, [(ag, .graph ns es ga), (ap, .plan ag [])], ap)
  | _, _ => none

/-- a mutation through the plan at address `p?` whose plan / graph objects are `po` / `go` -/
def mutV (w : Who) (t : T) (p? : Option Nat) (po go lo : Option Obj) (m : Mut) : T × List Eff :=
  match p?, po with
  | some p, some (.plan g sc) =>
    match m with
    | .setPlanScope s => (logw t p, [(p, .plan g s)])
    | .scopeOfLast s =>
      match t.last with
      | some a =>
        match lo with
        | some (.node kd _) => (logw t a, [(a, .node kd s)])
        | _ => (t, [])
      | none => (t, [])
    | .scopeOf n kd s => (logw t n, [(n, .node kd s)])
    | .newNode kd =>
      match go with
      | some (.graph ns es ga) =>
        let a := w.addr t.nxt
        ({ t with nxt := t.nxt + 1, last := some a, log := t.log ++ [g] },
         [(a, .node kd sc), (g, .graph (ns ++ [(a, [])]) es ga)])
      | _ => (t, [])
    | .addNode n a =>
      match go with
      | some (.graph ns es ga) => (logw t g, [(g, .graph (gAddNode ns n a) es ga)])
      | _ => (t, [])
    | .addEdge u v k a =>
      match go with
      | some (.graph ns es ga) =>
        (logw t g, [(g, .graph (gAddNode (gAddNode ns u []) v []) (gAddEdge es u v k a) ga)])
      | _ => (t, [])
    | .removeEdge u v k =>
      match go with
      | some (.graph ns es ga) => (logw t g, [(g, .graph ns (gRemoveEdge es u v k) ga)])
      | _ => (t, [])
    | .removeNode n =>
      match go with
      | some (.graph ns es ga) =>
        (logw t g, [(g, .graph (ns.filter (fun e => e.1 != n)) (es.filter (fun e => e.src != n && e.dst != n)) ga)])
      | _ => (t, [])
  | _, _ => (t, [])

def stepV (w : Who) (t : T) (v : View) : Instr → T × List Eff
  | .getMutable inplace =>
    if inplace then (t, []) else
    match copyPlan w t v.curO v.curG with
    | some (t', effs, ap) => ({ t' with cur := ap }, effs)
    | none => (t, [])
  | .forkTmp inplace =>
    if inplace then ({ t with tmp := some t.cur }, []) else
    match copyPlan w t v.curO v.curG with
    | some (t', effs, ap) => ({ t' with tmp := some ap }, effs)
    | none => (t, [])
  | .mut onTmp m =>
    if onTmp then mutV w t t.tmp v.tmpO v.tmpG v.lastO m
    else mutV w t (some t.cur) v.curO v.curG v.lastO m
  | .wild a o => (logw t a, [(a, o)])

def step (w : Who) (s : T × Heap) (i : Instr) : T × Heap :=
  let r := stepV w s.1 (view s.1 s.2) i
  (r.1, applyEffs s.2 r.2)

def exec (w : Who) (s : T × Heap) (is : List Instr) : T × Heap := is.foldl (step w) s

/-! ### the run path and the render path as programs -/

/-- everything that depends on the data (the plan, the registry, the output, the stores' state, the user's
    `transform_physical`): chosen adversarially -/
structure Script where
  gather : List Mut          -- `plan._gather(get_stack_frame(), output)` on the working plan
  useRegistry : Bool
  stale : List Mut           -- `prune_source_literals(…)` inside `_get_stale_nodes`, on ITS plan variable
  stores : List Mut          -- `_add_value_store` for every registry entry
  prune : List Mut           -- `prune_plan`
  transformCopies : Bool     -- the user's `transform_physical` returns a copy of / the very plan it was given
  transform : List Mut       --   … after mutating it like this
  phys : List Mut            -- `prune_source_literals` in `prep_run_physical`
  wild : List (Nat × Obj)     -- writes the model cannot place
  render : List Mut          -- `render`: predicate filtering and scope grouping

/-- `x.scope = …`: on the node just created if the source says so, else wherever the script says -/
def place (f : Flow) : Mut → Mut
  | .scopeOf n kd s => if f.scopeFreshOnly then .scopeOfLast s else .scopeOf n kd s
  | m => m

def muts (f : Flow) (onTmp : Bool) (ms : List Mut) : List Instr := ms.map (fun m => .mut onTmp (place f m))

/-- everything `run` does after `plan = get_mutable_plan(plan, inplace=…)` -/
def runRest (f : Flow) (s : Script) : List Instr :=
  muts f false s.gather ++
  (if s.useRegistry then
     [.getMutable f.pwvsInplace, .forkTmp f.staleInplace] ++ muts f true s.stale ++ muts f false s.stores ++
     [.getMutable f.pwvsPruneInplace] ++ muts f false s.prune
   else [.getMutable f.runPruneInplace] ++ muts f false s.prune) ++
  [.getMutable (!s.transformCopies)] ++ muts f false s.transform ++
  [.getMutable f.physInplace] ++ muts f false s.phys ++
  (if f.registryWrites then s.wild.map (fun e => .wild e.1 e.2) else [])

def runProg (f : Flow) (s : Script) : List Instr := .getMutable f.runFirstInplace :: runRest f s

def renderRest (f : Flow) (s : Script) : List Instr :=
  muts f false s.render ++ (if f.registryWrites then s.wild.map (fun e => .wild e.1 e.2) else [])

/-- `render`: `graph = (plan.graph if isinstance(plan, Plan) else plan).copy()`, then filtering / grouping on
    `graph`.  The local variable `graph` is represented by a wrapper plan object (`cur`). -/
def renderProg (f : Flow) (s : Script) : List Instr := .getMutable (!f.renderCopies) :: renderRest f s

/-- the state after the first `n` instructions (an exception at any point, `dry_run`, or completion) -/
def runN (w : Who) (h : Heap) (p : Nat) (prog : List Instr) (n : Nat) : T × Heap :=
  exec w (T.init p, h) (prog.take n)

/-! ### deep structural snapshot of what a caller can see through a plan / a registry -/

def snapPlan (h : Heap) (p : Nat) :
    Option (List Atom × List (Nat × Attrs × Option Obj) × List Edge × Attrs) :=
  match h p with
  | some (.plan g sc) =>
    match h g with
    | some (.graph ns es ga) => some (sc, ns.map (fun e => (e.1, e.2, h e.1)), es, ga)
    | _ => none
  | _ => none

def snapReg (h : Heap) (r : Nat) : Option (List (Nat × Nat × Option Obj)) :=
  match h r with
  | some (.registry m) => some (m.map (fun e => (e.1, e.2, h e.2)))
  | _ => none

/-! ### two runs of one plan, interleaved -/

structure Thread where
  t : T
  rest : List Instr

def runConc (w1 w2 : Who) : List Bool → Thread → Thread → Heap → Thread × Thread × Heap
  | [], a, b, h => (a, b, h)
  | true :: σ, a, b, h =>
    match a.rest with
    | [] => runConc w1 w2 σ a b h
    | i :: is => let r := step w1 (a.t, h) i; runConc w1 w2 σ ⟨r.1, is⟩ b r.2
  | false :: σ, a, b, h =>
    match b.rest with
    | [] => runConc w1 w2 σ a b h
    | i :: is => let r := step w2 (b.t, h) i; runConc w1 w2 σ a ⟨r.1, is⟩ r.2

/-- number of instructions thread 1 (`true`) / thread 2 (`false`) executed under schedule `σ` -/
def stepsOf (who : Bool) (σ : List Bool) (len : Nat) : Nat := min (σ.count who) len

/-! ### Registry.copy and registry mutations -/

/-- `Registry.copy`: a new RegistryValue object per entry (`copy.copy`), then a new registry object. -/
def regCopy (w : Who) (t : T) (h : Heap) (r : Nat) : T × Heap × Nat :=
  match h r with
  | some (.registry m) =>
    let k := m.length
    let m' := m.mapIdx (fun i ne => (ne.1, w.addr (t.nxt + i)))
    let ar := w.addr (t.nxt + k)
    let h' : Heap := fun a =>
      if a = ar then some (.registry m')
      else if w.base + w.tid ≤ a ∧ (a - w.base - w.tid) % 2 = 0 ∧ t.nxt ≤ (a - w.base - w.tid) / 2
              ∧ (a - w.base - w.tid) / 2 < t.nxt + k then
        (m[(a - w.base - w.tid) / 2 - t.nxt]?).bind (fun ne => h ne.2)
      else h a
    ({ t with nxt := t.nxt + k + 1 }, h', ar)
  | _ => (t, h, r)

inductive RMut where
  | add (n : Nat) (store : Nat) (isSource : Bool) (frame : Nat)   -- `registry.add` / `registry.source`
  | setSource (n : Nat) (b : Bool)                               -- `registry.mapping[n].is_source = b`
  | setStore (n : Nat) (s : Nat)
  | remove (n : Nat)
deriving DecidableEq, Repr

def lookupEntry (m : List (Nat × Nat)) (n : Nat) : Option Nat := (m.find? (fun e => e.1 == n)).map (·.2)

/-- a mutation through the registry object at address `x` -/
def applyRMut (w : Who) (s : T × Heap) (x : Nat) : RMut → T × Heap
  | .add n st b fr =>
    match s.2 x with
    | some (.registry m) =>
      let a := w.addr s.1.nxt
      ({ s.1 with nxt := s.1.nxt + 1, log := s.1.log ++ [x] },
       upd (upd s.2 a (.entry st b fr)) x (.registry (m.filter (fun e => e.1 != n) ++ [(n, a)])))
    | _ => s
  | .setSource n b =>
    match s.2 x with
    | some (.registry m) =>
      match lookupEntry m n with
      | some e =>
        match s.2 e with
        | some (.entry st _ fr) => (logw s.1 e, upd s.2 e (.entry st b fr))
        | _ => s
      | none => s
    | _ => s
  | .setStore n st =>
    match s.2 x with
    | some (.registry m) =>
      match lookupEntry m n with
      | some e =>
        match s.2 e with
        | some (.entry _ b fr) => (logw s.1 e, upd s.2 e (.entry st b fr))
        | _ => s
      | none => s
    | _ => s
  | .remove n =>
    match s.2 x with
    | some (.registry m) => (logw s.1 x, upd s.2 x (.registry (m.filter (fun e => e.1 != n))))
    | _ => s

end Uberjob.Heap
