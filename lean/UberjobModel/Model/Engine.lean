/-
  Executable model of `run_function_on_graph` (src/uberjob/_execution/run_function_on_graph.py)
  together with the three queue disciplines of scheduler.py (abstracted: a worker may take ANY
  element of the ready bag, which covers FIFO, the priority heap and the random bag at once).

  Core Lean only (no Mathlib): this file is linked into the `driver` executable.
-/
import UberjobModel.Gen.Engine
namespace Uberjob.Engine
open Uberjob.Gen.Engine (classify stopCond readyCond Kind)

/-- The part of a `networkx.MultiDiGraph` the engine looks at: for every node the list of its
    DISTINCT successors / predecessors (`graph.succ[x]`, `graph.pred[x]`).  Parallel edges between
    one pair of nodes therefore count once, as in `predecessor_count` and `graph.successors`. -/
structure Graph where
  nodes : List Nat
  succs : Nat → List Nat
  preds : Nat → List Nat

structure Graph.WF (g : Graph) : Prop where
  adj        : ∀ x y, y ∈ g.succs x ↔ x ∈ g.preds y
  succsNodup : ∀ x, (g.succs x).Nodup
  predsNodup : ∀ y, (g.preds y).Nodup
  succsNodes : ∀ x y, y ∈ g.succs x → x ∈ g.nodes ∧ y ∈ g.nodes
  nodesNodup : g.nodes.Nodup

def Graph.predCount (g : Graph) (y : Nat) : Nat := (g.preds y).length

/-- Remove duplicates, keeping first occurrences (the iteration order of a dict-of-dicts). -/
def dedup : List Nat → List Nat
  | [] => []
  | x :: xs => x :: (dedup xs).filter (· != x)

/-- Build the engine's view of a multigraph from its node list and its (possibly parallel) edges.
    Edges with an endpoint outside `nodes` are ignored. -/
def Graph.ofEdges (nodes : List Nat) (edges : List (Nat × Nat)) : Graph :=
  let ok := edges.filter (fun e => nodes.contains e.1 && nodes.contains e.2)
  { nodes := dedup nodes
    succs := fun x => dedup ((ok.filter (fun e => e.1 == x)).map (·.2))
    preds := fun y => dedup ((ok.filter (fun e => e.2 == y)).map (·.1)) }

inductive Item where
  | node (x : Nat)
  | done
deriving DecidableEq, Repr

/-- Control state of one worker thread (`worker_thread.process_items` + `process_node`). -/
inductive W where
  | idle                                   -- blocked in / about to call `queue.get()`
  | held (i : Item)                        -- `get` returned `i`; `stop` not read yet
  | running (x : Nat)                      -- inside `fn(x)`
  | releasing (x : Nat) (todo : List Nat)  -- `fn(x)` returned; successors in `todo` not yet handled
  | finishing (last : Bool)                -- about to call `task_done`; `last` = the item was DONE
  | exited
deriving DecidableEq, Repr

/-- Control state of the thread that called `run_function_on_graph`. -/
inductive Coord where
  | spawning (i : Nat)            -- `worker_pool`: `i` workers started so far
  | waiting                       -- inside `queue.join()`
  | stopping (intr : Bool)        -- in the `finally`, before `stop = True`
  | putting (k : Nat) (intr : Bool) -- `k` DONE sentinels queued so far
  | joining (intr : Bool)         -- `worker_pool`'s `finally`: joining the workers
  | returned (intr : Bool)
deriving DecidableEq, Repr

/-- What an observer of the calls sees: entry of `fn(x)`, its normal return, its raising. -/
inductive Ev where
  | begin (x : Nat)
  | ok (x : Nat)
  | fail (x : Nat)
deriving DecidableEq, Repr

structure Cfg where
  workers : Nat            -- coerce_worker_count result, ≥ 1
  maxErr  : Option Nat     -- coerce_max_errors result

structure St where
  queue      : List Item
  unfinished : Nat               -- Queue.unfinished_tasks
  rem        : Nat → Nat         -- remaining_pred_count_mapping (meaningful where predCount ≥ 2)
  stop       : Bool
  errs       : Nat               -- error_count
  first      : Option Nat        -- node of first_node_error
  ws         : List W
  coord      : Coord
  -- ghost history (never read by a guard)
  begun      : List Nat          -- nodes whose `fn` was entered, in order
  okd        : List Nat          -- nodes whose `fn` returned normally
  failed     : List Nat          -- nodes whose `fn` raised
  skipped    : List Nat          -- nodes dequeued after `stop` was set
  retired    : List Nat          -- nodes whose worker is done with them (released all successors / failed / skipped)
  rel        : List (Nat × Nat)  -- (x, y): x has handled its successor y (put or decrement)
  enq        : List Nat          -- every node ever put in the queue (including the initial ones)
  log        : List Ev := []     -- begin / ok / fail events in the order they happened

inductive Label where
  | spawn
  | get (w : Nat) (i : Item)
  | check (w : Nat)
  | finOk (w : Nat)
  | finFail (w : Nat)
  | release (w : Nat) (y : Nat)
  | taskDone (w : Nat)
  | joinReturn
  | interrupt
  | setStop
  | putDone
  | joined
deriving DecidableEq, Repr

def sources (g : Graph) : List Nat := g.nodes.filter (fun x => classify (g.predCount x) == Kind.source)

def init (g : Graph) : St :=
  { queue := (sources g).map Item.node
    unfinished := (sources g).length
    rem := g.predCount
    stop := false, errs := 0, first := none
    ws := [], coord := .spawning 0
    begun := [], okd := [], failed := [], skipped := [], retired := [], rel := []
    enq := sources g, log := [] }

def setW (s : St) (w : Nat) (st : W) : St := { s with ws := s.ws.set w st }

/-- `remaining_pred_count_mapping` after worker handled successor `y`:
    untouched if `y in single_parent_nodes`, else decremented under `remaining_pred_count_lock`. -/
def releaseRem (g : Graph) (s : St) (y : Nat) : Nat → Nat :=
  if classify (g.predCount y) == Kind.single then s.rem else fun z => if z = y then s.rem y - 1 else s.rem z

/-- Is `y` put in the queue: single-parent nodes directly, others when the counter reaches 0. -/
def releasePut (g : Graph) (s : St) (y : Nat) : Bool :=
  classify (g.predCount y) == Kind.single || readyCond (releaseRem g s y y)

/-- One atomic step.  `none` = the label is not enabled in this state. -/
def step? (g : Graph) (cfg : Cfg) (s : St) : Label → Option St
  | .spawn =>
    match s.coord with
    | .spawning i =>
      if i < cfg.workers then
        some { s with ws := s.ws ++ [W.idle]
                      coord := if i + 1 = cfg.workers then .waiting else .spawning (i + 1) }
      else none
    | _ => none
  | .get w i =>
    match s.ws[w]? with
    | some .idle =>
      if i ∈ s.queue then some { setW s w (.held i) with queue := s.queue.erase i } else none
    | _ => none
  | .check w =>
    match s.ws[w]? with
    | some (.held .done) => some (setW s w (.finishing true))
    | some (.held (.node x)) =>
      if s.stop then
        some { setW s w (.finishing false) with skipped := s.skipped ++ [x], retired := s.retired ++ [x] }
      else
        some { setW s w (.running x) with begun := s.begun ++ [x], log := s.log ++ [.begin x] }
    | _ => none
  | .finOk w =>
    match s.ws[w]? with
    | some (.running x) =>
      some { setW s w (.releasing x (g.succs x)) with okd := s.okd ++ [x], log := s.log ++ [.ok x] }
    | _ => none
  | .finFail w =>
    match s.ws[w]? with
    | some (.running x) =>
      let errs' := s.errs + 1
      some { setW s w (.finishing false) with
               errs := errs'
               first := match s.first with | some f => some f | none => some x
               stop := s.stop || stopCond errs' cfg.maxErr
               failed := s.failed ++ [x], retired := s.retired ++ [x], log := s.log ++ [.fail x] }
    | _ => none
  | .release w y =>
    match s.ws[w]? with
    | some (.releasing x todo) =>
      if y ∈ todo then
        let put := releasePut g s y
        some { setW s w (.releasing x (todo.erase y)) with
                 rel := s.rel ++ [(x, y)]
                 rem := releaseRem g s y
                 queue := if put then s.queue ++ [.node y] else s.queue
                 unfinished := if put then s.unfinished + 1 else s.unfinished
                 enq := if put then s.enq ++ [y] else s.enq }
      else none
    | _ => none
  | .taskDone w =>
    match s.ws[w]? with
    | some (.releasing x []) =>
      some { setW s w .idle with unfinished := s.unfinished - 1, retired := s.retired ++ [x] }
    | some (.finishing false) => some { setW s w .idle with unfinished := s.unfinished - 1 }
    | some (.finishing true) => some { setW s w .exited with unfinished := s.unfinished - 1 }
    | _ => none
  | .joinReturn =>
    match s.coord with
    | .waiting => if s.unfinished = 0 then some { s with coord := .stopping false } else none
    | _ => none
  | .interrupt =>
    match s.coord with
    | .waiting => some { s with coord := .stopping true }
    | _ => none
  | .setStop =>
    match s.coord with
    | .stopping i => some { s with stop := true, coord := .putting 0 i }
    | _ => none
  | .putDone =>
    match s.coord with
    | .putting k i =>
      if k < cfg.workers then
        some { s with queue := s.queue ++ [.done], unfinished := s.unfinished + 1
                      coord := if k + 1 = cfg.workers then .joining i else .putting (k + 1) i }
      else none
    | _ => none
  | .joined =>
    match s.coord with
    | .joining i => if s.ws.all (· == W.exited) then some { s with coord := .returned i } else none
    | _ => none

/-- Run a whole label sequence; `none` as soon as one label is not enabled. -/
def run? (g : Graph) (cfg : Cfg) (s : St) : List Label → Option St
  | [] => some s
  | l :: ls => match step? g cfg s l with
    | some s' => run? g cfg s' ls
    | none => none

/-- Reachability: the reflexive-transitive closure of `step?` from `init`. -/
inductive Reach (g : Graph) (cfg : Cfg) : St → Prop where
  | init : Reach g cfg (init g)
  | step {s s' : St} (l : Label) : Reach g cfg s → step? g cfg s l = some s' → Reach g cfg s'

theorem reach_of_run {g : Graph} {cfg : Cfg} {s s' : St} {ls : List Label}
    (h : Reach g cfg s) (hr : run? g cfg s ls = some s') : Reach g cfg s' := by
  induction ls generalizing s with
  | nil => simp [run?] at hr; exact hr ▸ h
  | cons l ls ih =>
    simp only [run?] at hr
    split at hr
    · next s1 h1 => exact ih (Reach.step l h h1) hr
    · exact absurd hr (by simp)

/-- What the run reports: `none` = returns normally, `some x` = raises the NodeError of node `x`
    (KeyboardInterrupt, when `intr`, takes precedence and is reported separately). -/
def result (s : St) : Option Nat := s.first

def W.node? : W → Option Nat
  | .held (.node x) => some x
  | .running x => some x
  | .releasing x _ => some x
  | _ => none

def W.isRunning : W → Bool
  | .running _ => true
  | _ => false

def runningCount (s : St) : Nat := s.ws.countP W.isRunning

end Uberjob.Engine
