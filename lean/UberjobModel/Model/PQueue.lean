import UberjobModel.Gen.Queues
/-!
  `PriorityQueue` of scheduler.py (`scheduler='default'`): `heapify` at construction, `_put` = `heappush`,
  `_get` = `heappop(...).value`, on `KeyValuePair`s that compare by KEY ONLY (`__lt__` is `self.key < other.key`).

  The functions below transcribe `heapq`'s algorithms (`_siftdown`, `_siftup`, `heappush`, `heappop`, `heapify` of
  CPython's Lib/heapq.py, which `_heapq` implements in C with the same comparisons in the same order).  CPython moves a hole
  and writes `newitem` at the end; here every move is a swap, which gives the same list at every loop exit because `newitem`
  is never compared while `_siftup` bubbles down and is the only left operand while `_siftdown` bubbles up.  The differential
  in harness/props/c04.py compares the whole list (keys AND values, so ties are visible) with the real class after every
  operation.
-/
namespace Uberjob.PQueue

abbrev E := Int × Nat   -- (key, value): KeyValuePair

/-- `heap[i], heap[j] = heap[j], heap[i]` (nothing happens outside the list) -/
def swap (h : List E) (i j : Nat) : List E :=
  match h[i]?, h[j]? with
  | some a, some b => (h.set i b).set j a
  | _, _ => h

/-- `_siftdown(heap, startpos, pos)`: while `pos > startpos` and `newitem < parent`, move up.  `fuel ≥ pos` is enough. -/
def siftDown (start : Nat) : Nat → List E → Nat → List E
  | 0, h, _ => h
  | fuel + 1, h, pos =>
    if pos > start then
      let parent := (pos - 1) / 2
      match h[pos]?, h[parent]? with
      | some x, some p => if x.1 < p.1 then siftDown start fuel (swap h pos parent) parent else h
      | _, _ => h
    else h

/-- the `while childpos < endpos` loop of `_siftup`: move the smaller child up until a leaf is reached
    (`if rightpos < endpos and not heap[childpos] < heap[rightpos]: childpos = rightpos`).  Returns the list and the leaf. -/
def bubble : Nat → List E → Nat → List E × Nat
  | 0, h, pos => (h, pos)
  | fuel + 1, h, pos =>
    let child := 2 * pos + 1
    if child < h.length then
      let right := child + 1
      let c := match h[child]?, h[right]? with
        | some a, some b => if !(decide (a.1 < b.1)) then right else child
        | _, _ => child
      bubble fuel (swap h pos c) c
    else (h, pos)

/-- `_siftup(heap, pos)`: bubble down to a leaf, then `_siftdown(heap, startpos, pos)`. -/
def siftUp (h : List E) (pos : Nat) : List E :=
  let r := bubble h.length h pos
  siftDown pos (r.2 + 1) r.1 r.2

/-- `heappush(heap, item)`: `heap.append(item); _siftdown(heap, 0, len(heap)-1)` -/
def push (h : List E) (x : E) : List E :=
  siftDown 0 (h.length + 1) (h ++ [x]) h.length

/-- `heappop(heap)`: `lastelt = heap.pop(); if heap: returnitem = heap[0]; heap[0] = lastelt; _siftup(heap, 0); return returnitem`
    `return lastelt` -/
def pop (h : List E) : Option (E × List E) :=
  match h.getLast? with
  | none => none
  | some last =>
    match h.dropLast with
    | [] => some (last, [])
    | a :: t => some (a, siftUp (last :: t) 0)

/-- `heapify(x)`: `for i in reversed(range(n // 2)): _siftup(x, i)` -/
def heapify (h : List E) : List E :=
  (List.range (h.length / 2)).reverse.foldl siftUp h

/-- `PriorityQueue.__init__`: `[KeyValuePair(priority(item), item) for item in initial_items]` then `heapify` -/
def init (prio : Nat → Int) (items : List Nat) : List E := heapify (items.map fun v => (prio v, v))

/-- `PriorityQueue._put(item)` -/
def put (prio : Nat → Int) (h : List E) (item : Nat) : List E := push h (prio item, item)

/-- `PriorityQueue._get()`: `heappop(self.queue).value` -/
def get (h : List E) : Option (Nat × List E) := (pop h).map fun r => (r.1.2, r.2)

end Uberjob.PQueue

namespace Uberjob.PQueue

def parseE (t : String) : Option E :=
  match t.splitOn ":" with
  | [k, v] => match k.toInt?, v.toNat? with
    | some k, some v => some (k, v)
    | _, _ => none
  | _ => none

def showH (h : List E) : String := " ".intercalate (h.map fun e => s!"{e.1}:{e.2}")

/-- `pq heapify k:v …` → list;  `pq push k:v … | k:v` → list;  `pq pop k:v …` → `k:v | list` or `empty` -/
def drv (line : String) : String :=
  let toks := fun (s : String) => (s.trimAscii.toString.splitOn " ").filter (· ≠ "")
  match line.splitOn "|" with
  | [a, b] =>
    match toks a, (toks b).filterMap parseE with
    | "pq" :: "push" :: q, [x] => showH (push (q.filterMap parseE) x)
    | _, _ => "bad-op"
  | [a] =>
    match toks a with
    | "pq" :: "heapify" :: q => showH (heapify (q.filterMap parseE))
    | "pq" :: "pop" :: q =>
      match pop (q.filterMap parseE) with
      | some (x, rest) => s!"{x.1}:{x.2} | " ++ showH rest
      | none => "empty"
    | _ => "bad-op"
  | _ => "bad-op"

end Uberjob.PQueue
