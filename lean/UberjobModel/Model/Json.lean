/-!
  # `json.dump(value, file, indent=…)` and `json.load(file)` as JsonFileStore uses them   (C12)

  Executable model of CPython's JSON encoder and decoder on the values JsonFileStore's domain consists of — `None`, `bool`,
  `int`, `str`, `list`, `dict` with `str` keys, nested arbitrarily — at the level of *code points* (the text layer and the
  byte codec are `Model/TextCodec.lean`).

  * `render` is `json.dumps(v, indent=n)` / `json.dumps(v)` (the layout is a parameter: `Layout.indent n`, `Layout.compact`),
    with `ensure_ascii` a parameter: escapes exactly as `json.encoder.py_encode_basestring(_ascii)` does, astral characters
    as an escaped surrogate pair, integers in decimal.
  * `parse` is `json.loads` (`json.decoder` / `_json.c` scanner): whitespace `[ \t\n\r]*`, literals, the number grammar
    `-?(0|[1-9][0-9]*)`, strings in strict mode (no raw control characters, the eight simple escapes, `\uXXXX` with an escaped
    surrogate PAIR joined into one astral code point), arrays, objects (a later duplicate key replaces the value at the
    position of the first), "Extra data" rejected, a leading U+FEFF rejected.
  * Floats travel as their TEXT (`FT`: sign, integer part, fraction digits, exponent): `render` writes the text `float.__repr__`
    produced, `parse` returns the text it scanned (grammar `-?(0|[1-9][0-9]*)(\.[0-9]+)?([eE][-+]?[0-9]+)?`, a fraction or an
    exponent making it a float).  What stays outside is `float(repr(x)) == x` itself (a CPython guarantee) and the three
    non-finite literals (`NaN`, `Infinity`, `-Infinity`: the parser answers `float`, the correspondence check skips them).
    CPython's limits (recursion depth of the scanner, 4300-digit limit of `int`↔`str`) are not modelled either.

  Strings are lists of code points (`Nat`), lone surrogates allowed — as in a Python `str`.
-/
namespace Uberjob.Json

abbrev Str := List Nat

/-- a float as the text that denotes it: `neg`, integer part, the digits after the point (`[]`: no fraction), the exponent
    (`e`/`E`, optional sign character, digits) -/
structure FT where
  neg : Bool
  ip : Nat
  frac : List Nat
  expo : Option (Nat × Option Nat × List Nat)
deriving DecidableEq, Repr

mutual
inductive JV where
  | null
  | bool (b : Bool)
  | int (n : Int)
  | float (f : FT)
  | str (s : Str)
  | arr (xs : JVs)
  | obj (ms : JMs)
inductive JVs where
  | nil
  | cons (v : JV) (vs : JVs)
inductive JMs where
  | nil
  | cons (k : Str) (v : JV) (ms : JMs)
end

deriving instance DecidableEq for JV, JVs, JMs

/-! ## encoder -/

def hexDigit (d : Nat) : Nat := if d < 10 then 48 + d else 87 + d

/-- `'{0:04x}'.format(c)` for `c < 65536` -/
def hex4 (c : Nat) : Str := [hexDigit (c / 4096 % 16), hexDigit (c / 256 % 16), hexDigit (c / 16 % 16), hexDigit (c % 16)]

def uEsc (c : Nat) : Str := 92 :: 117 :: hex4 c

/-- one character of a string, as `ESCAPE_ASCII` / `ESCAPE` of json.encoder replace it -/
def escChar (ascii : Bool) (c : Nat) : Str :=
  if c = 34 then [92, 34] else if c = 92 then [92, 92] else if c = 10 then [92, 110] else if c = 13 then [92, 114]
  else if c = 9 then [92, 116] else if c = 8 then [92, 98] else if c = 12 then [92, 102]
  else if c < 32 then uEsc c
  else if c ≤ 126 then [c]
  else if !ascii then [c]
  else if c < 65536 then uEsc c
  else uEsc (0xD800 + (c - 65536) / 1024 % 1024) ++ uEsc (0xDC00 + (c - 65536) % 1024)

def encStr (ascii : Bool) (s : Str) : Str := 34 :: (s.flatMap (escChar ascii) ++ [34])

/-- decimal digits of a natural number, most significant first (`str(n)`) -/
def natDigits (n : Nat) : Str :=
  if h : n < 10 then [48 + n] else natDigits (n / 10) ++ [48 + n % 10]
termination_by n
decreasing_by omega

def encInt (n : Int) : Str := if n < 0 then 45 :: natDigits n.natAbs else natDigits n.toNat

def expText : Option (Nat × Option Nat × List Nat) → Str
  | none => []
  | some (e, sg, ds) => e :: (sg.toList ++ ds)

/-- the text of a float (`float.__repr__` produces such a text; so does every float literal of a JSON document) -/
def FT.text (f : FT) : Str :=
  (if f.neg then [45] else []) ++ (natDigits f.ip ++ ((if f.frac = [] then [] else 46 :: f.frac) ++ expText f.expo))

/-- where json.dump puts white space: after an opening / before a closing bracket at nesting level `lvl` (`gap`), and after
    the comma between two items (`sgap`) -/
inductive Layout where
  /-- `indent=n`: a newline and `n * level` spaces; the item separator is `","` -/
  | indent (n : Nat)
  /-- `indent=None`: nothing; the item separator is `", "` -/
  | compact
deriving DecidableEq, Repr

def nl (n lvl : Nat) : Str := 10 :: List.replicate (n * lvl) 32

def Layout.gap : Layout → Nat → Str
  | .indent n, lvl => nl n lvl
  | .compact, _ => []

def Layout.sgap : Layout → Nat → Str
  | .indent n, lvl => nl n lvl
  | .compact, _ => [32]

structure Opts where
  layout : Layout
  ascii : Bool
deriving DecidableEq, Repr

mutual
/-- `json.dumps(v, indent=…, ensure_ascii=…)` at nesting level `lvl` -/
def render (o : Opts) (lvl : Nat) : JV → Str
  | .null => [110, 117, 108, 108]
  | .bool true => [116, 114, 117, 101]
  | .bool false => [102, 97, 108, 115, 101]
  | .int n => encInt n
  | .float f => f.text
  | .str s => encStr o.ascii s
  | .arr xs =>
    match xs with
    | .nil => [91, 93]
    | .cons v vs => 91 :: (o.layout.gap (lvl + 1) ++ render o (lvl + 1) v ++ renderItems o (lvl + 1) vs ++ o.layout.gap lvl ++ [93])
  | .obj ms =>
    match ms with
    | .nil => [123, 125]
    | .cons k v ms => 123 :: (o.layout.gap (lvl + 1) ++ encStr o.ascii k ++ 58 :: 32 :: render o (lvl + 1) v
        ++ renderMembers o (lvl + 1) ms ++ o.layout.gap lvl ++ [125])
/-- the items after the first: each preceded by the item separator -/
def renderItems (o : Opts) (lvl : Nat) : JVs → Str
  | .nil => []
  | .cons v vs => 44 :: (o.layout.sgap lvl ++ render o lvl v ++ renderItems o lvl vs)
def renderMembers (o : Opts) (lvl : Nat) : JMs → Str
  | .nil => []
  | .cons k v ms => 44 :: (o.layout.sgap lvl ++ encStr o.ascii k ++ 58 :: 32 :: render o lvl v ++ renderMembers o lvl ms)
end

/-! ## decoder -/

inductive Err where
  /-- `json.JSONDecodeError` -/
  | syntax
  /-- float syntax: outside the model -/
  | float
  /-- (never with the fuel `parse` gives) -/
  | fuel
deriving DecidableEq, Repr

deriving instance DecidableEq for Except

abbrev P (α : Type) := Except Err (α × Str)

def isWs (c : Nat) : Bool := c = 32 || c = 9 || c = 10 || c = 13

def skipWs : Str → Str
  | [] => []
  | c :: r => if isWs c then skipWs r else c :: r

def hexVal (c : Nat) : Option Nat :=
  if 48 ≤ c ∧ c ≤ 57 then some (c - 48) else if 97 ≤ c ∧ c ≤ 102 then some (c - 87) else if 65 ≤ c ∧ c ≤ 70 then some (c - 55) else none

/-- four hex digits at the head of the text -/
def hex4Val : Str → Option (Nat × Str)
  | a :: b :: c :: d :: r =>
    match hexVal a, hexVal b, hexVal c, hexVal d with
    | some a, some b, some c, some d => some (a * 4096 + b * 256 + c * 16 + d, r)
    | _, _, _, _ => none
  | _ => none

def isHigh (c : Nat) : Bool := 0xD800 ≤ c && c ≤ 0xDBFF
def isLow (c : Nat) : Bool := 0xDC00 ≤ c && c ≤ 0xDFFF

def headIs (c : Nat) : Str → Bool
  | x :: _ => x == c
  | [] => false

/-- after an escaped high surrogate `u`: an escaped low surrogate right behind it makes one astral code point -/
def pairAhead (u : Nat) (s : Str) : Option (Nat × Str) :=
  if headIs 92 s && headIs 117 s.tail then
    match hex4Val s.tail.tail with
    | some (l, r') => if isLow l then some (65536 + (u - 0xD800) * 1024 + (l - 0xDC00), r') else none
    | none => none
  else none

def simpleEsc (e : Nat) : Option Nat :=
  if e = 34 then some 34 else if e = 92 then some 92 else if e = 47 then some 47 else if e = 98 then some 8
  else if e = 102 then some 12 else if e = 110 then some 10 else if e = 114 then some 13 else if e = 116 then some 9 else none

def consR (c : Nat) : Option (Str × Str) → Option (Str × Str)
  | some (s, r) => some (c :: s, r)
  | none => none

/-- `scanstring(s, end, strict=True)`: the text after the opening quote; gives the string and what follows the closing quote -/
def scanStrF : Nat → Str → Option (Str × Str)
  | 0, _ => none
  | _ + 1, [] => none
  | f + 1, c :: r =>
    if c = 34 then some ([], r)
    else if c = 92 then
      match r with
      | [] => none
      | e :: r1 =>
        if e = 117 then
          match hex4Val r1 with
          | none => none
          | some (u, r2) =>
            if isHigh u then
              match pairAhead u r2 with
              | some (j, r3) => consR j (scanStrF f r3)
              | none => consR u (scanStrF f r2)
            else consR u (scanStrF f r2)
        else
          match simpleEsc e with
          | some ch => consR ch (scanStrF f r1)
          | none => none
    else if c < 32 then none
    else consR c (scanStrF f r)

def scanStr (s : Str) : Option (Str × Str) := scanStrF s.length s

def isDigit (c : Nat) : Bool := 48 ≤ c && c ≤ 57

def headIs' (p : Nat → Bool) : Str → Bool
  | x :: _ => p x
  | [] => false

def spanDigits : Str → Str × Str
  | [] => ([], [])
  | c :: r => if isDigit c then ((spanDigits r).1.cons c, (spanDigits r).2) else ([], c :: r)

def digitsVal (ds : Str) : Nat := ds.foldl (fun a d => 10 * a + (d - 48)) 0

def startsWith (p : Str) (s : Str) : Bool := s.take p.length == p

/-- `(0|[1-9][0-9]*)` -/
def parseNat : Str → P Nat
  | [] => .error .syntax
  | d :: r =>
    if d = 48 then .ok (0, r)
    else if 49 ≤ d ∧ d ≤ 57 then .ok (digitsVal (d :: (spanDigits r).1), (spanDigits r).2)
    else .error .syntax

/-- `(\.[0-9]+)?` -/
def scanFrac : Str → List Nat × Str
  | 46 :: d :: r => if isDigit d then ((spanDigits (d :: r)).1, (spanDigits (d :: r)).2) else ([], 46 :: d :: r)
  | r => ([], r)

/-- `([eE][-+]?[0-9]+)?` -/
def scanExp (r : Str) : Option (Nat × Option Nat × List Nat) × Str :=
  match r with
  | e :: sg :: r2 =>
    if e = 101 ∨ e = 69 then
      if sg = 43 ∨ sg = 45 then
        (if headIs' isDigit r2 then (some (e, some sg, (spanDigits r2).1), (spanDigits r2).2) else (none, r))
      else if isDigit sg then (some (e, none, (spanDigits (sg :: r2)).1), (spanDigits (sg :: r2)).2)
      else (none, r)
    else (none, r)
  | _ => (none, r)

/-- a number after its sign: an int, or - with a fraction or an exponent - a float -/
def parseNumber (neg : Bool) (s : Str) : P JV :=
  match parseNat s with
  | .error e => .error e
  | .ok (n, r) =>
    match scanFrac r, scanExp (scanFrac r).2 with
    | (fr, _), (ex, r2) =>
      if fr = [] ∧ ex = none then .ok (.int (if neg then -(n : Int) else n), r2)
      else .ok (.float ⟨neg, n, fr, ex⟩, r2)

/-- a later duplicate key replaces the value where the key first stood (a Python dict) -/
def JMs.upsert : JMs → Str → JV → JMs
  | .nil, k, v => .cons k v .nil
  | .cons k' v' ms, k, v => if k' = k then .cons k' v ms else .cons k' v' (ms.upsert k v)

def JMs.dedupeInto : JMs → JMs → JMs
  | .nil, acc => acc
  | .cons k v ms, acc => ms.dedupeInto (acc.upsert k v)

def JMs.dedupe (ms : JMs) : JMs := ms.dedupeInto .nil

/-- `"key" : value` with the value parser given -/
def parseMember (pv : Str → P JV) (s : Str) : P (Str × JV) :=
  if headIs 34 s then
    match scanStr s.tail with
    | none => .error .syntax
    | some (k, r) =>
      if headIs 58 (skipWs r) then
        match pv (skipWs (skipWs r).tail) with
        | .ok (v, r2) => .ok ((k, v), r2)
        | .error e => .error e
      else .error .syntax
  else .error .syntax

mutual
/-- `scan_once` at a non-white-space position -/
def parseV : Nat → Str → P JV
  | 0, _ => .error .fuel
  | _ + 1, [] => .error .syntax
  | f + 1, c :: s =>
    if c = 34 then
      match scanStr s with
      | some (str, r) => .ok (.str str, r)
      | none => .error .syntax
    else if c = 91 then
      if headIs 93 (skipWs s) then .ok (.arr .nil, (skipWs s).tail)
      else
        match parseV f (skipWs s) with
        | .error e => .error e
        | .ok (v, r) =>
          match parseTail f r with
          | .error e => .error e
          | .ok (vs, r') => .ok (.arr (.cons v vs), r')
    else if c = 123 then
      if headIs 125 (skipWs s) then .ok (.obj .nil, (skipWs s).tail)
      else
        match parseMember (parseV f) (skipWs s) with
        | .error e => .error e
        | .ok ((k, v), r) =>
          match parseMTail f r with
          | .error e => .error e
          | .ok (ms, r') => .ok (.obj (JMs.dedupe (.cons k v ms)), r')
    else if c = 110 then (if startsWith [117, 108, 108] s then .ok (.null, s.drop 3) else .error .syntax)
    else if c = 116 then (if startsWith [114, 117, 101] s then .ok (.bool true, s.drop 3) else .error .syntax)
    else if c = 102 then (if startsWith [97, 108, 115, 101] s then .ok (.bool false, s.drop 4) else .error .syntax)
    else if c = 78 then (if startsWith [97, 78] s then .error .float else .error .syntax)
    else if c = 73 then (if startsWith [110, 102, 105, 110, 105, 116, 121] s then .error .float else .error .syntax)
    else if c = 45 then
      if startsWith [73, 110, 102, 105, 110, 105, 116, 121] s then .error .float
      else parseNumber true s
    else parseNumber false (c :: s)
/-- after an item of an array: `, item` … `]` -/
def parseTail : Nat → Str → P JVs
  | 0, _ => .error .fuel
  | f + 1, s =>
    if headIs 44 (skipWs s) then
      match parseV f (skipWs (skipWs s).tail) with
      | .error e => .error e
      | .ok (v, r1) =>
        match parseTail f r1 with
        | .error e => .error e
        | .ok (vs, r2) => .ok (.cons v vs, r2)
    else if headIs 93 (skipWs s) then .ok (.nil, (skipWs s).tail)
    else .error .syntax
/-- after a member of an object: `, "key": value` … `}` -/
def parseMTail : Nat → Str → P JMs
  | 0, _ => .error .fuel
  | f + 1, s =>
    if headIs 44 (skipWs s) then
      match parseMember (parseV f) (skipWs (skipWs s).tail) with
      | .error e => .error e
      | .ok ((k, v), r1) =>
        match parseMTail f r1 with
        | .error e => .error e
        | .ok (ms, r2) => .ok (.cons k v ms, r2)
    else if headIs 125 (skipWs s) then .ok (.nil, (skipWs s).tail)
    else .error .syntax
end

/-- `json.loads(text)` -/
def parse (s : Str) : Except Err JV :=
  if headIs 0xFEFF s then .error .syntax
  else
    match parseV (s.length + 1) (skipWs s) with
    | .error e => .error e
    | .ok (v, r) => if skipWs r = [] then .ok v else .error .syntax

/-! ## the domain on which reading back gives the value written -/

/-- code points of a Python str, and no high surrogate immediately followed by a low one (json reads the two escapes back
    as ONE astral character) -/
def strOK : Str → Bool
  | [] => true
  | [c] => c < 0x110000
  | c :: d :: r => c < 0x110000 && !(isHigh c && isLow d) && strOK (d :: r)

def JMs.keys : JMs → List Str
  | .nil => []
  | .cons k _ ms => k :: ms.keys

def nodupB : List Str → Bool
  | [] => true
  | k :: ks => !ks.contains k && nodupB ks

/-- a float text: a fraction or an exponent (else it denotes an int), digits where digits belong -/
def FT.ok (f : FT) : Bool :=
  (f.frac != [] || f.expo.isSome) && f.frac.all isDigit &&
  (match f.expo with
   | none => true
   | some (e, sg, ds) => (e == 101 || e == 69) && (sg == none || sg == some 43 || sg == some 45) && ds != [] && ds.all isDigit)

mutual
def JV.ok : JV → Bool
  | .float f => f.ok
  | .str s => strOK s
  | .arr xs => xs.ok
  | .obj ms => ms.ok && nodupB ms.keys
  | _ => true
def JVs.ok : JVs → Bool
  | .nil => true
  | .cons v vs => v.ok && vs.ok
def JMs.ok : JMs → Bool
  | .nil => true
  | .cons k v ms => strOK k && v.ok && ms.ok
end

end Uberjob.Json
