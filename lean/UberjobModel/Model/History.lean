import UberjobModel.Model.Cache
/-!
  Store-level view of everything that can happen to the value stores between and during runs.
-/
namespace Uberjob.Cache

/-- One store-level event.  A run contributes `write` events (the write node of a stored value completed: the value
    is what the call computed from what its arguments gave at that moment) and, for dependent sources, `update`
    events (the producer rewrote the source).  A user contributes `update` (new source data) and `delete`. -/
inductive HOp where
  | write (i : Nat) (t : Int)
  | update (s : Nat) (v : V) (t : Int)
  | delete (i : Nat)

def applyOp (P : LPlan) (w : World) : HOp → World
  | .write i t => w.set i (some (rawNow P w i, t))
  | .update s v t => w.set s (some (v, t))
  | .delete i => w.set i none

/-- The assumptions of C03 on one event: stored non-source nodes are written by runs, sources are updated,
    and "modified times increase with every write". -/
def OpOk (P : LPlan) (w : World) : HOp → Prop
  | .write i t => P.reg i = some false ∧ w.below t
  | .update s _ t => P.reg s = some true ∧ w.below t
  | .delete i => (∃ s, P.reg i = some s) ∧ ∃ t, w.below t

def OpsOk (P : LPlan) : World → List HOp → Prop
  | _, [] => True
  | w, op :: ops => OpOk P w op ∧ OpsOk P (applyOp P w op) ops

def applyOps (P : LPlan) (w : World) (ops : List HOp) : World := ops.foldl (applyOp P) w

end Uberjob.Cache
