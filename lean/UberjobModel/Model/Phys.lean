import UberjobModel.Gen.Stale
import UberjobModel.Model.Engine
/-!
  The PHYSICAL plan: what `plan_with_value_stores` (caching.py) followed by `prune_plan` (pruning.py) build from a
  logical plan, a registry (in mapping order) and a stale set; and what `run_physical` hands to the engine.
  Core Lean only (linked into the driver).

  * generic part: keyed multigraphs as node / edge lists, `pruneAnc` (`all_ancestors` + `remove_nodes_from`),
    `pruneLit` (`_prune_literal_if_trivial`, the inequality is the generated `Gen.Stale.keepLiteral`), the fold
    `pruneLiterals` in graph node order, `dropSourceLits` (`prune_source_literals`), `addSink`
    (`plan._gather(list(nodes))`: one call with a positional-argument edge from every node);
  * `physBuild`: the closed form of `plan_with_value_stores` (independent of the registry order except for the
    ORDER of the new nodes), `physFinal`, `engineGraph`.
-/
namespace Uberjob.Phys
open Uberjob.Gen.Stale (keepLiteral)

/-- Edge keys of the plan multigraph: `Dependency()`, `PositionalArg(k)`, `KeywordArg(name, k)`. -/
inductive Key where
  | dep
  | pos (k : Nat)
  | kw (k : Nat) (name : String)
deriving DecidableEq, Repr

def Key.isArg : Key → Bool
  | .dep => false
  | _ => true

structure Edge (α : Type) where
  src : α
  dst : α
  key : Key
deriving DecidableEq, Repr

/-- Nodes in `graph.nodes()` order; edges as a duplicate-free list (a MultiDiGraph holds one edge per
    (source, target, key)). -/
structure PG (α : Type) where
  nodes : List α
  edges : List (Edge α)
deriving DecidableEq

section generic
variable {α : Type} [DecidableEq α]

/-- Remove duplicates, keeping first occurrences. -/
def dedup : List α → List α
  | [] => []
  | x :: xs => x :: (dedup xs).filter (fun y => y != x)

def outEdges (G : PG α) (a : α) : List (Edge α) := G.edges.filter (fun e => e.src == a)
def inEdges (G : PG α) (a : α) : List (Edge α) := G.edges.filter (fun e => e.dst == a)
/-- `graph.predecessors(a)` / `graph.successors(a)`: DISTINCT neighbours. -/
def predsOf (G : PG α) (a : α) : List α := dedup ((inEdges G a).map (·.src))
def succsOf (G : PG α) (a : α) : List α := dedup ((outEdges G a).map (·.dst))

/-- One round of `all_ancestors`: add the sources of all edges into the current set. -/
def ancStep (es : List (Edge α)) (S : List α) : List α :=
  S ++ dedup ((es.filter (fun e => S.contains e.dst && !S.contains e.src)).map (·.src))

def anc (es : List (Edge α)) : Nat → List α → List α
  | 0, S => S
  | k + 1, S => anc es k (ancStep es S)

/-- `required_nodes = all_ancestors(graph, required)`; `graph.remove_nodes_from(nodes - required_nodes)`.
    `fuel` bounds the number of rounds (any number ≥ the longest path into a required node gives the fixpoint). -/
def pruneAnc (fuel : Nat) (req : List α) (G : PG α) : PG α :=
  let K := anc G.edges fuel req
  ⟨G.nodes.filter (fun a => K.contains a),
   G.edges.filter (fun e => K.contains e.src && K.contains e.dst)⟩

def prodEdges (ps ss : List α) : List (Edge α) := ps.flatMap (fun p => ss.map (fun s => ⟨p, s, Key.dep⟩))

/-- `_prune_literal_if_trivial(plan, l)`. -/
def pruneLit (G : PG α) (l : α) : PG α :=
  if (outEdges G l).all (fun e => !e.key.isArg) then
    let ps := predsOf G l
    let ss := succsOf G l
    if keepLiteral ps.length ss.length then G
    else
      let new := (prodEdges ps ss).filter (fun e => !G.edges.contains e)
      ⟨G.nodes.filter (fun a => a != l), (G.edges ++ new).filter (fun e => e.src != l && e.dst != l)⟩
  else G

/-- The loop of `prune_plan` over `[u for u in graph.nodes() if type(u) is Literal and u != output_node]`. -/
def pruneLiterals (isLit : α → Bool) (out : Option α) (G : PG α) : PG α :=
  (G.nodes.filter (fun u => isLit u && some u != out)).foldl pruneLit G

/-- `prune_plan(plan, required_nodes=req, output_node=out)`. -/
def prunePlan (isLit : α → Bool) (fuel : Nat) (req : List α) (out : Option α) (G : PG α) : PG α :=
  pruneLiterals isLit out (pruneAnc fuel (req ++ out.toList) G)

/-- `prune_source_literals` (no predicate) as `run_physical` applies it: the literals that have no predecessor
    leave the graph handed to the engine (they stay available as values). -/
def dropSourceLits (isLit : α → Bool) (G : PG α) : PG α :=
  let src := G.nodes.filter (fun u => isLit u && !(G.edges.any (fun e => e.dst == u)))
  ⟨G.nodes.filter (fun a => !src.contains a),
   G.edges.filter (fun e => !src.contains e.src && !src.contains e.dst)⟩

def sinkEdges : Nat → List α → List (Edge (Option α))
  | _, [] => []
  | k, a :: as => ⟨some a, none, Key.pos k⟩ :: sinkEdges (k + 1) as

/-- `G` plus `plan._gather(list(G.nodes))`: a new call (`none`) taking every node as a positional argument. -/
def addSink (G : PG α) : PG (Option α) :=
  ⟨G.nodes.map some ++ [none],
   G.edges.map (fun e => ⟨some e.src, some e.dst, e.key⟩) ++ sinkEdges 0 G.nodes⟩

end generic

/-! ### the physical plan of a logical plan -/

inductive PN where
  | orig (i : Nat)        -- the node of the logical plan
  | storeLit (i : Nat)    -- `plan.lit(value_store)`
  | read (i : Nat)        -- `value_store.__class__.read(storeLit)`
  | write (i : Nat)       -- `value_store.__class__.write(storeLit, orig)`
  | barrier (i : Nat)     -- `plan.lit(Barrier)` of an out-of-date source
deriving DecidableEq, Repr

structure LEdge where
  src : Nat
  dst : Nat
  key : Key
deriving DecidableEq, Repr

/-- A logical plan (after the output has been gathered), its registry and the outcome of the stale check. -/
structure Input where
  nodes : List Nat              -- `plan.graph.nodes()` order
  lits  : List Nat              -- the nodes that are `Literal`s (the others are `Call`s)
  edges : List LEdge
  reg   : List (Nat × Bool)     -- `registry.mapping` in insertion order: (node, is_source)
  stale : List Nat              -- `_get_stale_nodes`
  out   : Option Nat            -- the (gathered) output node

def Input.regOf (P : Input) (i : Nat) : Option Bool := (P.reg.find? (fun e => e.1 == i)).map (·.2)
def Input.isStale (P : Input) (i : Nat) : Bool := P.stale.contains i

/-- The node that stands for "`i` has been brought up to date": the write call, or the Barrier literal of a source. -/
def Input.W (P : Input) (i : Nat) : PN := if P.regOf i = some true then .barrier i else .write i

def PN.isLit (P : Input) : PN → Bool
  | .orig i => P.lits.contains i
  | .storeLit _ => true
  | .barrier _ => true
  | .read _ => false
  | .write _ => false

/-- Where a plain dependency on `u` is attached: the node itself when it is not registered, `W u` when it is
    registered and out of date, nowhere when it is registered and up to date. -/
def Input.depSrc (P : Input) (u : Nat) : Option PN :=
  match P.regOf u with
  | none => some (.orig u)
  | some _ => if P.isStale u then some (P.W u) else none

/-- The rewiring loop of `_add_value_store`, seen from one logical edge. -/
def Input.rewire (P : Input) (e : LEdge) : Option (Edge PN) :=
  match P.regOf e.src with
  | none => some ⟨.orig e.src, .orig e.dst, e.key⟩
  | some _ =>
    if e.key.isArg then some ⟨.read e.src, .orig e.dst, e.key⟩
    else (P.depSrc e.src).map (fun a => ⟨a, .orig e.dst, Key.dep⟩)

def Input.logicalPreds (P : Input) (i : Nat) : List Nat := dedup ((P.edges.filter (fun e => e.dst == i)).map (·.src))

def Input.gadgetNodes (P : Input) (e : Nat × Bool) : List PN :=
  [.storeLit e.1, .read e.1] ++ (if P.isStale e.1 then [if e.2 then .barrier e.1 else .write e.1] else [])

def Input.gadgetEdges (P : Input) (e : Nat × Bool) : List (Edge PN) :=
  ⟨.storeLit e.1, .read e.1, .pos 0⟩ ::
    (if P.isStale e.1 then
      (if e.2 then
        ⟨.barrier e.1, .read e.1, .dep⟩ ::
          (P.logicalPreds e.1).filterMap (fun u => (P.depSrc u).map (fun a => ⟨a, .barrier e.1, Key.dep⟩))
      else
        [⟨.storeLit e.1, .write e.1, .pos 0⟩, ⟨.orig e.1, .write e.1, .pos 1⟩, ⟨.write e.1, .read e.1, .dep⟩])
    else [])

/-- The graph after the loop of `plan_with_value_stores`, before `prune_plan`. -/
def physBuild (P : Input) : PG PN :=
  ⟨P.nodes.map .orig ++ P.reg.flatMap P.gadgetNodes,
   P.edges.filterMap P.rewire ++ P.reg.flatMap P.gadgetEdges⟩

/-! #### the loop itself (a transcription of `_add_value_store` and of the `for` loop of `plan_with_value_stores`);
    `Lemmas/PhysLoop.lean` proves that it builds `physBuild`, whatever the registry order -/

/-- `_add_value_store(plan, orig r.1, registry_value, is_stale=…)` applied to the graph built so far: snapshot of the
    out-edges of the node; store literal, read call; Barrier with an edge from every CURRENT predecessor of the node
    (source) or write call taking the store literal and the node (otherwise); `write → read`; then every snapshot edge
    is removed and re-added from the read node (argument keys) or from the write node / Barrier (plain dependencies,
    only when out of date). -/
def addValueStore (P : Input) (G : PG PN) (r : Nat × Bool) : PG PN :=
  let node := PN.orig r.1
  let w : PN := if r.2 then .barrier r.1 else .write r.1
  let gad : List (Edge PN) :=
    ⟨.storeLit r.1, .read r.1, .pos 0⟩ ::
      (if P.isStale r.1 then
        (if r.2 then (predsOf G node).map (fun p => ⟨p, .barrier r.1, Key.dep⟩)
         else [⟨.storeLit r.1, .write r.1, .pos 0⟩, ⟨node, .write r.1, .pos 1⟩]) ++ [⟨w, .read r.1, .dep⟩]
       else [])
  let rew := (outEdges G node).filterMap (fun e =>
    if e.key.isArg then some ⟨.read r.1, e.dst, e.key⟩
    else if P.isStale r.1 then some ⟨w, e.dst, e.key⟩ else none)
  ⟨G.nodes ++ P.gadgetNodes r, G.edges.filter (fun e => e.src != node) ++ gad ++ rew⟩

/-- the logical plan as a physical graph: what the loop starts from -/
def baseGraph (P : Input) : PG PN :=
  ⟨P.nodes.map .orig, P.edges.map (fun e => ⟨.orig e.src, .orig e.dst, e.key⟩)⟩

/-- `for node, registry_value in registry.mapping.items(): _add_value_store(…)` -/
def planWithValueStores (P : Input) : PG PN := P.reg.foldl (addValueStore P) (baseGraph P)

/-- `read_node_lookup.get(output_node, output_node)`. -/
def physOut (P : Input) : Option PN :=
  P.out.map (fun o => if (P.regOf o).isSome then .read o else .orig o)

/-- `required_nodes`: every write node / Barrier. -/
def required (P : Input) : List PN := (P.reg.filter (fun e => P.isStale e.1)).map (fun e => P.W e.1)

/-- Position in a rank that increases along every edge of the physical plan of a topologically numbered plan;
    also the encoding of physical nodes as engine nodes. -/
def code : PN → Nat
  | .orig i => 5 * i
  | .storeLit i => 5 * i + 1
  | .write i => 5 * i + 2
  | .barrier i => 5 * i + 3
  | .read i => 5 * i + 4

def maxL : List Nat → Nat
  | [] => 0
  | x :: xs => max x (maxL xs)

/-- Number of `all_ancestors` rounds: more than the rank of any required node. -/
def fuelOf (P : Input) : Nat := maxL ((required P ++ (physOut P).toList).map code) + 1

/-- What `run(..., dry_run=True)` returns (with `physOut`). -/
def physFinal (P : Input) : PG PN :=
  prunePlan (PN.isLit P) (fuelOf P) (required P) (physOut P) (physBuild P)

/-- The graph `run_physical` hands to `run_function_on_graph`. -/
def physEngine (P : Input) : PG PN := dropSourceLits (PN.isLit P) (physFinal P)

def toEngine (G : PG PN) : Engine.Graph :=
  Engine.Graph.ofEdges (G.nodes.map code) (G.edges.map (fun e => (code e.src, code e.dst)))

def engineGraph (P : Input) : Engine.Graph := toEngine (physEngine P)

/-! ### canonical text -/

def Key.str : Key → String
  | .dep => "d"
  | .pos k => s!"p{k}"
  | .kw k name => s!"k{k}={name}"

def PN.str : PN → String
  | .orig i => s!"o{i}"
  | .storeLit i => s!"s{i}"
  | .read i => s!"r{i}"
  | .write i => s!"w{i}"
  | .barrier i => s!"b{i}"

def Edge.str (e : Edge PN) : String := s!"{e.src.str}>{e.dst.str}:{e.key.str}"

def sortStrs (l : List String) : List String := (l.toArray.qsort (· < ·)).toList

/-- nodes in graph order, edges sorted. -/
def PG.str (G : PG PN) (out : Option PN) : String :=
  "nodes " ++ " ".intercalate (G.nodes.map PN.str) ++ " | edges " ++ " ".intercalate (sortStrs (G.edges.map Edge.str))
    ++ " | out " ++ (match out with | some o => o.str | none => "-")

end Uberjob.Phys
