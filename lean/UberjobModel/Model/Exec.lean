import UberjobModel.Model.Phys
import UberjobModel.Model.Cache
/-!
  EXECUTION of a physical plan (`run_physical.py`): what each kind of node does to the result slots and to the value
  stores when the engine completes it.  Core Lean only (linked into the driver).

  * `prep_run_physical` binds every call to the result slots of its argument nodes (`_create_bound_call`, on the plan
    BEFORE `prune_source_literals`, i.e. on `physFinal`); a `Literal` is its own result.
  * a user call `orig i` computes `app i (values of its argument slots)` (Herbrand: "deterministic call function");
  * `read i` is `value_store.read()`: the slot gets what store `i` holds now;
  * `write i` is `value_store.write(value of orig i)`: the store gets that value and a modified time newer than
    everything before it (the clock ticks);
  * literals (`storeLit`, Barrier, the user's literals) are no-ops for the engine.

  The effect of a node is applied when the engine COMPLETES it (`finOk`, i.e. in the order of `St.okd`).  A node reads
  only the slots of its predecessors and (for `read i`) store `i`, and writes only its own slot and (for `write i`)
  store `i`; `Lemmas/ExecInv.lean` proves that the writer of whatever a node reads completed before the node began, so
  the moment between `begin` and `finOk` at which the real code performs the access is irrelevant.
-/
namespace Uberjob.Exec
open Uberjob.Phys Uberjob.Cache

structure XSt where
  w     : World
  slot  : PN → Option V
  clock : Int

/-- inverse of `Phys.code` -/
def decode (n : Nat) : PN :=
  match n % 5 with
  | 0 => .orig (n / 5)
  | 1 => .storeLit (n / 5)
  | 2 => .write (n / 5)
  | 3 => .barrier (n / 5)
  | _ => .read (n / 5)

/-- `result_lookup[node]`: a Literal is its own result (whether or not the engine ever sees it); any other node has a
    slot, filled when it completes.  (`junk` = the slot was never filled; no theorem lets it reach a result.) -/
def XSt.get (P : Input) (x : XSt) : PN → V
  | .orig j => if P.lits.contains j then .app j [] else (x.slot (.orig j)).getD (.junk 0)
  | a => (x.slot a).getD (.junk 0)

/-- The argument nodes of a call, in the order of its argument edges (`get_argument_nodes`). -/
def argSrcs (G : PG PN) (a : PN) : List PN :=
  (G.edges.filter (fun e => e.dst == a && e.key.isArg)).map (·.src)

def setSlot (x : XSt) (a : PN) (v : V) : XSt :=
  { x with slot := fun b => if b = a then some v else x.slot b }

/-- What completing node `a` does (`process` of `prep_run_physical`; `G` is the plan the calls were bound on). -/
def execNode (P : Input) (G : PG PN) (x : XSt) : PN → XSt
  | .orig j =>
    if P.lits.contains j then x
    else setSlot x (.orig j) (.app j ((argSrcs G (.orig j)).map (x.get P)))
  | .read i => setSlot x (.read i) ((x.w.content i).getD (.missing i))
  | .write i => { x with w := x.w.set i (some (x.get P (.orig i), x.clock)), clock := x.clock + 1 }
  | .storeLit _ => x
  | .barrier _ => x

/-- The effects of a completion order (engine node ids). -/
def execOrder (P : Input) (x : XSt) (order : List Nat) : XSt :=
  order.foldl (fun x n => execNode P (physFinal P) x (decode n)) x

def initX (w0 : World) (c0 : Int) : XSt := ⟨w0, fun _ => none, c0⟩

end Uberjob.Exec
