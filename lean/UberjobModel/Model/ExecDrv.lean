import UberjobModel.Model.Exec
import UberjobModel.Model.ExecNorm
import UberjobModel.Model.ExecProd
import UberjobModel.Model.PhysDrv
/-!
  Driver command for the execution model (stateless):

  `exec | <nodes> | <edges> | <registry> | <stale> | <out> | <world> | <c0> | <order>`
     the first five fields as for `phys`; world: `i=<term>@<t>` per store that holds something (terms in the syntax of
     `V.toStr`: `s3.1`, `a4(s3.1,a2())`, `missing7`); c0: the clock; order: the nodes in the order their effects took
     place (`o3` user call / literal, `r1` read-back, `w1` store write, `s1` store literal, `b1` Barrier)
  reply: `stores i=<term>@<t> … | slots <node>=<term> … | out <term>|-`
  `execn | …` the same with normalising stores (`Model/ExecNorm.lean`, `tagNorm`)
-/
namespace Uberjob.Exec
open Uberjob.Phys Uberjob.Cache

def digits (cs : List Char) : List Char × List Char := (cs.takeWhile Char.isDigit, cs.dropWhile Char.isDigit)

def natOf (ds : List Char) : Option Nat := if ds.isEmpty then none else (String.ofList ds).toNat?

mutual
  partial def parseV : List Char → Option (V × List Char)
    | 's' :: cs =>
      let (d1, r1) := digits cs
      match r1 with
      | '.' :: r2 =>
        let (d2, r3) := digits r2
        do some (.src (← natOf d1) (← natOf d2), r3)
      | _ => none
    | 'a' :: cs =>
      let (d1, r1) := digits cs
      match r1 with
      | '(' :: r2 => do
        let (args, r3) ← parseArgs r2
        some (.app (← natOf d1) args, r3)
      | _ => none
    | 'm' :: 'i' :: 's' :: 's' :: 'i' :: 'n' :: 'g' :: cs =>
      let (d1, r1) := digits cs
      do some (.missing (← natOf d1), r1)
    | 'j' :: 'u' :: 'n' :: 'k' :: cs =>
      let (d1, r1) := digits cs
      do some (.junk (← natOf d1), r1)
    | _ => none
  partial def parseArgs : List Char → Option (List V × List Char)
    | ')' :: r => some ([], r)
    | cs => do
      let (v, r1) ← parseV cs
      match r1 with
      | ',' :: r2 => do
        let (vs, r3) ← parseArgs r2
        some (v :: vs, r3)
      | ')' :: r2 => some ([v], r2)
      | _ => none
end

def parseTerm (s : String) : Option V :=
  match parseV s.toList with
  | some (v, []) => some v
  | _ => none

def parsePN (t : String) : Option PN :=
  let n := (t.drop 1).toString.toNat?
  if t.startsWith "o" then n.map .orig
  else if t.startsWith "r" then n.map .read
  else if t.startsWith "w" then n.map .write
  else if t.startsWith "s" then n.map .storeLit
  else if t.startsWith "b" then n.map .barrier
  else none

def parseStoreTok (t : String) : Option (Nat × V × Int) :=
  match t.splitOn "=" with
  | [i, rest] =>
    match rest.splitOn "@" with
    | [tm, ts] => do some (← i.toNat?, ← parseTerm tm, ← ts.toInt?)
    | _ => none
  | _ => none

def worldOf (l : List (Nat × V × Int)) : World :=
  ⟨fun i => (l.find? (fun e => e.1 == i)).map (fun e => (e.2.1, e.2.2))⟩

def parseProds (s : String) : List (Nat × Nat) :=
  (toks s).filterMap (fun t => match t.splitOn ">" with
    | [a, b] => do some ((← a.toNat?), (← b.toNat?))
    | _ => none)

def runReply (P : Input) (order : List PN) (x : XSt) : String :=
  let regs := sortStrs ((P.reg.filterMap (fun r => (x.w.st r.1).map (fun vt => s!"{r.1}={vt.1.toStr}@{vt.2}"))))
  let slots := order.filterMap (fun a => match a with
    | .orig _ => some s!"{a.str}={(x.get P a).toStr}"
    | .read _ => some s!"{a.str}={(x.get P a).toStr}"
    | _ => none)
  let out := match physOut P with
    | some a => (x.get P a).toStr
    | none => "-"
  "stores " ++ " ".intercalate regs ++ " | slots " ++ " ".intercalate slots ++ " | out " ++ out

def drv (line : String) : String :=
  match line.splitOn "|" with
  | [hd, ns, es, rs, st, o, wd, c, ord] =>
    match toks hd, parseInput ns es rs st o, (toks wd).mapM parseStoreTok, (toks c), (toks ord).mapM parsePN with
    | [cmd], some P, some stores, [c0s], some order =>
      match c0s.toInt?, cmd == "exec" || cmd == "execn" with
      | none, _ => "bad-op"
      | _, false => "bad-op"
      | some c0, true =>
        -- `execn`: every non-source store normalises (`tagNorm`)
        let x := if cmd == "execn" then order.foldl (execNodeN P tagNorm (physFinal P)) (initX (worldOf stores) c0)
                 else order.foldl (execNode P (physFinal P)) (initX (worldOf stores) c0)
        runReply P order x
    | _, _, _, _, _ => "bad-op"
  | [hd, ns, es, rs, st, o, wd, c, ord, prods] =>
    -- `execp … | j>d j>d`: producers (`Model/ExecProd.lean`): call `j` rewrites the dependent source `d`
    match toks hd, parseInput ns es rs st o, (toks wd).mapM parseStoreTok, (toks c), (toks ord).mapM parsePN with
    | ["execp"], some P, some stores, [c0s], some order =>
      match c0s.toInt? with
      | none => "bad-op"
      | some c0 =>
        let pl := parseProds prods
        let pr : Nat → Option Nat := fun j => (pl.find? (fun e => e.1 == j)).map (·.2)
        runReply P order (order.foldl (execNodeP P pr (physFinal P)) (initX (worldOf stores) c0))
    | _, _, _, _, _ => "bad-op"
  | _ => "bad-op"

end Uberjob.Exec
