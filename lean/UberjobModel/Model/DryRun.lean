import UberjobModel.Gen.DryRun
/-!
  The control skeleton of `uberjob.run` (_run.py) as an interpreter of the GENERATED statement list
  `Gen.DryRun.runProg`, over abstract plans and nodes: what each transformation does is a parameter (`Ops`);
  what matters here is WHERE the function returns when `dry_run` is set, which state it returns, which state
  `run_physical` receives, and which value-store methods can have been called by then
  (`Gen.DryRun.calledOnStore`, extracted from caching.py / pruning.py / _run.py).  Core Lean only.
-/
namespace Uberjob.DryRun
open Uberjob.Gen.DryRun

/-- `plan`, `output_node`, `redirected_output_node` of `run`. -/
structure RunSt (Pl Nd : Type) where
  plan : Pl
  output : Option Nd
  redirected : Option Nd

/-- The transformations `run` applies (arbitrary functions: the user's `transform_physical` included). -/
structure Ops (Pl Nd : Type) where
  copy      : Pl → Pl
  gather    : Pl → Pl × Option Nd
  stores    : Pl → Option Nd → Pl × Option Nd        -- plan_with_value_stores, or prune_plan when there is no registry
  transform : Pl → Option Nd → Pl × Option Nd
  totals    : Pl → Pl                                 -- _update_run_totals (reads the plan only: identity in every instance of interest)

inductive Outcome (Pl Nd : Type) where
  | dry (plan : Pl) (out : Option Nd)        -- `return plan, redirected_output_node`
  | ran (plan : Pl) (out : Option Nd)        -- `return run_physical(plan, output_node=redirected_output_node, …)`
  | fellThrough
deriving DecidableEq

/-- Store-level events. -/
inductive Ev where
  | mtime (i : Nat)     -- `get_modified_time` of the store of node `i`
  | read (i : Nat)
  | write (i : Nat)
  | call (i : Nat)      -- a user call
deriving DecidableEq, Repr

def evOf : StoreMethod → Nat → Ev
  | .getModifiedTime, i => .mtime i
  | .read, i => .read i
  | .write, i => .write i

def applyStmt {Pl Nd : Type} (ops : Ops Pl Nd) (st : RunSt Pl Nd) : Stmt → RunSt Pl Nd
  | .copyPlan => { st with plan := ops.copy st.plan }
  | .gatherOutput => let r := ops.gather st.plan; { st with plan := r.1, output := r.2 }
  | .initRedirected => { st with redirected := st.output }
  | .valueStoresOrPrune => let r := ops.stores st.plan st.output; { st with plan := r.1, redirected := r.2 }
  | .transformPhysical => let r := ops.transform st.plan st.redirected; { st with plan := r.1, redirected := r.2 }
  | .updateRunTotals => { st with plan := ops.totals st.plan }
  | .dryReturn => st
  | .runPhysical => st

/-- Run the statement list; `dry` is the `dry_run` argument. -/
def interp {Pl Nd : Type} (ops : Ops Pl Nd) (dry : Bool) : List Stmt → RunSt Pl Nd → Outcome Pl Nd
  | [], _ => .fellThrough
  | .dryReturn :: rest, st => if dry then .dry st.plan st.redirected else interp ops dry rest st
  | .runPhysical :: _, st => .ran st.plan st.redirected
  | s :: rest, st => interp ops dry rest (applyStmt ops st s)

/-- The store-level events of a run: the transformation step calls the methods in `calledOnStore` on the stores of
    the registered nodes the stale check visits (`visited`, any list); `run_physical` contributes `exec` (any list);
    no other statement touches a store. -/
def events (dry : Bool) (visited : List Nat) (exec : List Ev) : List Stmt → List Ev
  | [] => []
  | .dryReturn :: rest => if dry then [] else events dry visited exec rest
  | .runPhysical :: _ => exec
  | .valueStoresOrPrune :: rest =>
    visited.flatMap (fun i => calledOnStore.map (fun m => evOf m i)) ++ events dry visited exec rest
  | _ :: rest => events dry visited exec rest

end Uberjob.DryRun
