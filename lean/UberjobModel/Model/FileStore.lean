import UberjobModel.Gen.FileStore
/-!
# File system + staged write  (src/uberjob/stores/_file_store.py and the five `_*_file_store.py`)

The file system is an association list `path ↦ (content, mtime)` plus a logical clock that every
file operation advances (the trusted OS assumptions of DESIGN §5: `open(…,"w")` creates/truncates, `write`
appends, `os.replace` is an atomic rename that carries content AND mtime of the source, `os.remove` unlinks,
the clock is monotone).

A `write` of a store is the control structure of `staged_write_path` / `staged_write`, executed
against a *fault schedule* `Sched = Nat → Fault`, indexed by the dynamic count of file operations
(open = 0, the `write` calls, close, replace and — on the exception path — the clean-up close and remove):

* `Fault.raise e p` — the operation raises an exception of class `e` after `p` units of partial effect
  (open: `p > 0` means the file was created/truncated before the failure, e.g. an unknown `encoding`;
  write: the first `p` bytes of the chunk reached the file);
* `Fault.die p` — the process dies there (`os._exit`, SIGKILL, power loss), nothing else runs.

Where `os.replace` sits relative to the `try`, which exceptions the handler catches, and whether it
removes / re-raises come from the current source (`Uberjob.Gen.FileStore`, regenerated on every check).
-/
namespace Uberjob.FileStore
open Uberjob.Gen.FileStore

abbrev Bytes := List Nat

structure File where
  content : Bytes
  mtime : Nat
deriving DecidableEq, Repr

structure FS (α : Type) where
  files : List (α × File)
  clock : Nat
deriving Repr

section
variable {α : Type} [DecidableEq α]

def lookup (p : α) : List (α × File) → Option File
  | [] => none
  | e :: r => if e.1 = p then some e.2 else lookup p r

def eraseKey (p : α) (l : List (α × File)) : List (α × File) := l.filter (fun e => !decide (e.1 = p))

def FS.get (fs : FS α) (p : α) : Option File := lookup p fs.files
def FS.put (fs : FS α) (p : α) (f : File) : FS α := { fs with files := (p, f) :: eraseKey p fs.files }
def FS.del (fs : FS α) (p : α) : FS α := { fs with files := eraseKey p fs.files }
def FS.tick (fs : FS α) : FS α := { fs with clock := fs.clock + 1 }

/-- `open(p, "w…")`: create or truncate; the new (empty) content is stamped with the current time. -/
def FS.openTrunc (fs : FS α) (p : α) : FS α := (fs.put p ⟨[], fs.clock⟩).tick

/-- `f.write(c)` on the file opened at `p` (data written to a file that was unlinked meanwhile goes nowhere). -/
def FS.append (fs : FS α) (p : α) (c : Bytes) : FS α :=
  match fs.get p with
  | some f => (fs.put p ⟨f.content ++ c, fs.clock⟩).tick
  | none => fs.tick

/-- `os.replace(src, dst)`: atomic; `none` = `FileNotFoundError`.  The inode moves: content and mtime of `src`. -/
def FS.replace (fs : FS α) (src dst : α) : Option (FS α) :=
  match fs.get src with
  | none => none
  | some f => some (((fs.del src).put dst f).tick)

/-- `_try_remove(p)`: a missing file is not an error. -/
def FS.remove (fs : FS α) (p : α) : FS α := (fs.del p).tick

/-- `get_modified_time(path)`: `None` when `os.path.getmtime` raises `OSError` (missing / inaccessible). -/
def FS.getModifiedTime (fs : FS α) (p : α) : Option Nat := (fs.get p).map (·.mtime)

/-- what `open(p, "rb").read()` returns (`none`: `FileNotFoundError`); every store's `read` opens exactly `self.path` -/
def FS.read (fs : FS α) (p : α) : Option Bytes := (fs.get p).map (·.content)

/-- every stored mtime lies in the past of the clock -/
def FS.WF (fs : FS α) : Prop := ∀ p f, fs.get p = some f → f.mtime < fs.clock

end

/-- exception classes that the code distinguishes: `OSError` (swallowed by `_try_remove`), any other
    `Exception`, and `BaseException`s that are not `Exception`s (KeyboardInterrupt, SystemExit, GeneratorExit) -/
inductive Exc where
  | osError | exception | baseOnly
deriving DecidableEq, Repr

def Exc.isException : Exc → Bool
  | .baseOnly => false
  | _ => true

inductive Fault where
  | none
  | raise (e : Exc) (partialEffect : Nat)
  | die (partialEffect : Nat)
deriving DecidableEq, Repr

abbrev Sched := Nat → Fault

def noFaults : Sched := fun _ => .none
def single (k : Nat) (f : Fault) : Sched := fun i => if i = k then f else .none

inductive Outcome where
  | ok | raised (e : Exc) | died
deriving DecidableEq, Repr

inductive OpName where
  | open | write | close | replace | remove
deriving DecidableEq, Repr

/-- what the block inside `with staged_write(...) as outputfile:` does: `write` calls on the file object, or an
    exception of its own (a serialisation error part-way, an un-encodable character, user code raising) -/
inductive BodyOp where
  | write (c : Bytes)
  /-- the block raises between two file operations (serialiser error, user code) -/
  | fail (e : Exc)
  /-- a `write` call that raises by itself without writing anything (`UnicodeEncodeError`) -/
  | failingWrite (e : Exc)
deriving DecidableEq, Repr

/-- the facts about `staged_write_path` that T1 reads from the source -/
structure Cfg where
  replaceInsideTry : Bool
  catchesBase : Bool
  removes : Bool
  reraises : Bool
deriving DecidableEq, Repr

/-- the configuration of the CURRENT source -/
def Cfg.gen : Cfg :=
  ⟨Gen.FileStore.replaceInsideTry, Gen.FileStore.handlerCatchesBaseException, Gen.FileStore.handlerRemovesStaging,
   Gen.FileStore.handlerReraises⟩

/-- the source before fix 98bd2d0 (finding F2): `os.replace` after the `try` -/
def Cfg.beforeF2 : Cfg := ⟨false, true, true, true⟩

/-- result of (part of) a write: file system, how it ended, next operation index, operations attempted -/
structure R (α : Type) where
  fs : FS α
  out : Outcome
  next : Nat
  trace : List OpName

section
variable {α : Type} [DecidableEq α]

/-- `outputfile.__exit__`: close.  `pending` is how the block ended; an exception raised by `close` replaces it. -/
def closeOp (sched : Sched) (fs : FS α) (i : Nat) (pending : Outcome) (tr : List OpName) : R α :=
  match sched i with
  | .none => ⟨fs.tick, pending, i + 1, tr ++ [.close]⟩
  | .raise e _ => ⟨fs.tick, .raised e, i + 1, tr ++ [.close]⟩
  | .die _ => ⟨fs, .died, i + 1, tr ++ [.close]⟩

/-- the block of `with open(staging_path, mode, **kwargs) as outputfile:` -/
def writesOp (sched : Sched) (stg : α) : FS α → Nat → List BodyOp → List OpName → R α
  | fs, i, [], tr => closeOp sched fs i .ok tr
  | fs, i, .fail e :: _, tr => closeOp sched fs i (.raised e) tr
  | fs, i, .write c :: r, tr =>
    match sched i with
    | .none => writesOp sched stg (fs.append stg c) (i + 1) r (tr ++ [.write])
    | .raise e p => closeOp sched (if p = 0 then fs else fs.append stg (c.take p)) (i + 1) (.raised e) (tr ++ [.write])
    | .die p => ⟨if p = 0 then fs else fs.append stg (c.take p), .died, i + 1, tr ++ [.write]⟩
  | fs, i, .failingWrite e :: _, tr =>
    match sched i with
    | .none => closeOp sched fs (i + 1) (.raised e) (tr ++ [.write])
    | .raise e' _ => closeOp sched fs (i + 1) (.raised e') (tr ++ [.write])
    | .die _ => ⟨fs, .died, i + 1, tr ++ [.write]⟩

/-- `with open(staging_path, mode, **kwargs) as outputfile: <ops>` — everything `staged_write` runs inside
    `staged_write_path`. -/
def bodyStagedWrite (sched : Sched) (stg : α) (ops : List BodyOp) (fs : FS α) : R α :=
  match sched 0 with
  | .none => writesOp sched stg (fs.openTrunc stg) 1 ops [.open]
  | .raise e p => ⟨if p = 0 then fs else fs.openTrunc stg, .raised e, 1, [.open]⟩
  | .die p => ⟨if p = 0 then fs else fs.openTrunc stg, .died, 1, [.open]⟩

/-- how the handler ends once its body has completed -/
def Cfg.fin (cfg : Cfg) (e : Exc) : Outcome := if cfg.reraises then .raised e else .ok

/-- `except <BaseException|Exception>: _try_remove(staging_path); raise` entered with exception `e` -/
def handler (cfg : Cfg) (sched : Sched) (stg : α) (fs : FS α) (i : Nat) (e : Exc) (tr : List OpName) : R α :=
  if cfg.catchesBase || e.isException then
    if cfg.removes then
      match sched i with
      | .none => ⟨fs.remove stg, cfg.fin e, i + 1, tr ++ [.remove]⟩
      | .raise e' _ => ⟨fs, if e' = .osError then cfg.fin e else .raised e', i + 1, tr ++ [.remove]⟩
      | .die _ => ⟨fs, .died, i + 1, tr ++ [.remove]⟩
    else ⟨fs, cfg.fin e, i, tr⟩
  else ⟨fs, .raised e, i, tr⟩

/-- `staged_write_path(path)` around a block whose execution gave `body` -/
def stagedPath (cfg : Cfg) (sched : Sched) (stg tgt : α) (body : R α) : R α :=
  match body.out with
  | .died => body
  | .raised e => handler cfg sched stg body.fs body.next e body.trace
  | .ok =>
    let i := body.next
    let tr := body.trace ++ [.replace]
    match sched i with
    | .die _ => ⟨body.fs, .died, i + 1, tr⟩
    | .raise e _ =>
      if cfg.replaceInsideTry then handler cfg sched stg body.fs (i + 1) e tr else ⟨body.fs, .raised e, i + 1, tr⟩
    | .none =>
      match body.fs.replace stg tgt with
      | some fs' => ⟨fs', .ok, i + 1, tr⟩
      | none =>
        if cfg.replaceInsideTry then handler cfg sched stg body.fs (i + 1) .osError tr
        else ⟨body.fs, .raised .osError, i + 1, tr⟩

/-- `staged_write(path, mode, **kwargs)` with a block performing `ops`; `modeHasW` is `"w" in mode` -/
def stagedWrite (cfg : Cfg) (sched : Sched) (modeHasW : Bool) (stg tgt : α) (ops : List BodyOp) (fs : FS α) : R α :=
  if modeHasW then stagedPath cfg sched stg tgt (bodyStagedWrite sched stg ops fs)
  else ⟨fs, .raised .exception, 0, []⟩        -- ValueError, before any file operation

/-- the operations the block of the store performs: TouchFileStore's block is `pass` -/
def effOps (spec : StoreSpec) (ops : List BodyOp) : List BodyOp := if spec.body = .nothing then [] else ops

/-- `<Store>(path).write(value)`.  `ops` = what the serialiser does with the file object for this value
    (TextFileStore/BinaryFileStore: one `write`; json/pickle: the chunks `dump` emits, possibly ending in a
    failure); `valueIsNone` matters for TouchFileStore only. -/
def storeWrite (cfg : Cfg) (sched : Sched) (spec : StoreSpec) (valueIsNone : Bool) (stg tgt : α)
    (ops : List BodyOp) (fs : FS α) : R α :=
  if spec.noneGuardFirst && !valueIsNone then ⟨fs, .raised .exception, 0, []⟩   -- TypeError, before any file operation
  else stagedWrite cfg sched (spec.writeMode.contains 'w') stg tgt (effOps spec ops) fs

end

/-- all bytes the block writes when nothing fails -/
def payload : List BodyOp → Bytes
  | [] => []
  | .write c :: r => c ++ payload r
  | .fail _ :: r => payload r
  | .failingWrite _ :: r => payload r

def noFail : List BodyOp → Bool
  | [] => true
  | .write _ :: r => noFail r
  | .fail _ :: _ => false
  | .failingWrite _ :: _ => false

/-- the static operation list of DESIGN §3.7 for a block that writes `chunks` -/
def writeOps (chunks : List Bytes) : List OpName :=
  [.open] ++ chunks.map (fun _ => .write) ++ [.close, .replace]

/-- the op list executed with ONE fault `f` at index `k` (the formulation of DESIGN §4/C11) -/
def runOps {α : Type} [DecidableEq α] (cfg : Cfg) (spec : StoreSpec) (stg tgt : α) (fs : FS α)
    (ops : List BodyOp) (k : Nat) (f : Fault) : R α :=
  storeWrite cfg (single k f) spec true stg tgt ops fs

end Uberjob.FileStore
