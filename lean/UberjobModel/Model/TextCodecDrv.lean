import UberjobModel.Model.TextCodec
/-!
  Driver commands of the text-codec model (T2 of C12; stateless):

  `text rt <enc> <wnl> <rnl> | cp cp cp …`   write the string, then read it
      enc       `utf-8` | `utf-16` | `latin-1`
      wnl, rnl  `universal|empty|lf|cr|crlf`, or `gen` = what TextFileStore passes in the current source,
                `genjson` = what JsonFileStore passes
    reply `err` (UnicodeEncodeError) or `ok b=<len>:<hash of the bytes on disk> r=<read-back>` where the read-back
    string is `cp cp …` up to 4096 code points and `#<len>:<hash>` beyond

  `text dec <rnl> | cp cp cp …`   what `read()` returns for a file whose decoded content is the given text
    reply `ok r=<…>`
-/
namespace Uberjob.TextCodecDrv
open Uberjob.TextCodec Uberjob.Gen.TextCodec

def nats (s : String) : List Nat := (s.splitOn " ").filterMap (fun t => t.toNat?)

def parseNl (side : Bool) (t : String) : Option Newline :=
  if t == "gen" then some (if side then textWriteNewline else textReadNewline)
  else if t == "genjson" then some (if side then jsonWriteNewline else jsonReadNewline)
  else if t == "universal" then some .universal
  else if t == "empty" then some .empty
  else if t == "lf" then some .lf
  else if t == "cr" then some .cr
  else if t == "crlf" then some .crlf
  else none

def parseEnc (t : String) : Option (Str → Option Bytes) :=
  if t == "utf-8" then some utf8Enc
  else if t == "utf-16" then some utf16Enc
  else if t == "latin-1" then some latin1.enc
  else none

def hashNats (b : List Nat) : Nat := b.foldl (fun h x => (h * 257 + x + 1) % 1000000007) 7

def showStr (s : Str) : String :=
  if s.length ≤ 4096 then " ".intercalate (s.map toString) else s!"#{s.length}:{hashNats s}"

def cmdRt (rest : String) : String :=
  match rest.splitOn "|" with
  | [hd, cps] =>
    match (hd.splitOn " ").filter (· ≠ "") with
    | [enc, wnl, rnl] =>
      match parseEnc enc, parseNl true wnl, parseNl false rnl with
      | some enc, some wnl, some rnl =>
        let s := nats cps
        let txt := encodeText posix wnl s
        match enc txt with
        | none => "err"
        | some b => s!"ok b={b.length}:{hashNats b} r={showStr (decodeText rnl txt)}"
      | _, _, _ => "bad-op"
    | _ => "bad-op"
  | _ => "bad-op"

def cmdDec (rest : String) : String :=
  match rest.splitOn "|" with
  | [hd, cps] =>
    match parseNl false hd.trimAscii.toString with
    | some rnl => s!"ok r={showStr (decodeText rnl (nats cps))}"
    | none => "bad-op"
  | _ => "bad-op"

/-- `text dec8 | b0 b1 …` / `text dec16 | b0 b1 …`: the strict decoders on an arbitrary byte string -/
def cmdDecBytes (wide : Bool) (rest : String) : String :=
  match rest.splitOn "|" with
  | [_, bs] =>
    match (if wide then utf16Dec else utf8Dec) (nats bs) with
    | some s => s!"ok r={showStr (decodeText textReadNewline s)}"     -- the newline mode of the current source's `read`
    | none => "err"
  | _ => "bad-op"

end Uberjob.TextCodecDrv

namespace Uberjob.TextCodec

/-- entry point for Driver.lean: `text rt …` / `text dec …` -/
def drv (line : String) : String :=
  let line := line.trimAscii.toString
  if line.startsWith "text rt " then Uberjob.TextCodecDrv.cmdRt (line.drop 8).toString
  else if line.startsWith "text dec8 " then Uberjob.TextCodecDrv.cmdDecBytes false (line.drop 9).toString
  else if line.startsWith "text dec16 " then Uberjob.TextCodecDrv.cmdDecBytes true (line.drop 10).toString
  else if line.startsWith "text dec " then Uberjob.TextCodecDrv.cmdDec (line.drop 9).toString
  else "bad-op"

end Uberjob.TextCodec
