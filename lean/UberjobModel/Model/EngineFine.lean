import UberjobModel.Model.Engine
/-!
  A FINER model of `run_function_on_graph`: the block

      with remaining_pred_count_lock:
          remaining_pred_count_mapping[successor] -= 1
          if remaining_pred_count_mapping[successor] == 0:
              queue.put(successor)

  is no longer one step (`Engine.Label.release` of a multi-parent successor) but five: acquire the lock, decrement, test,
  (conditionally) put, release the lock — and between any two of them every other thread may take any step it can take.
  `Lemmas/EngineRefine.lean` proves that every reachable state of this model is, up to the position inside the block, a
  reachable state of the coarse model (`Model/Engine.lean`), so every safety theorem proved there holds here: the
  "lock-protected region = one step" reduction is a theorem, not a paper argument, for this lock.

  The block `with failure_lock: error_count += 1; if not first_node_error: …; if … error_count > max_errors: stop = True`
  (`Engine.Label.finFail`) is split in the same way: acquire, count, set the first error, decide `stop` (the only variable of
  the block that other threads read without the lock — the step at which the block takes effect), release.

  Core Lean only.
-/
namespace Uberjob.EngineFine
open Uberjob.Engine
open Uberjob.Gen.Engine (classify readyCond Kind)

/-- Where the lock holder is inside the `with remaining_pred_count_lock:` block. -/
inductive Stage where
  | acquired                 -- the lock is held, nothing done yet
  | decremented              -- `remaining_pred_count_mapping[successor] -= 1` done
  | tested (ready : Bool)    -- `== 0` evaluated
  | done                     -- `queue.put(successor)` done (or skipped); the lock is still held
deriving DecidableEq, Repr

/-- The holder of `remaining_pred_count_lock`: worker `w`, which finished node `x`, has the successors `todo` left and is
    handling successor `y`. -/
structure Region where
  w     : Nat
  x     : Nat
  todo  : List Nat
  y     : Nat
  stage : Stage
deriving DecidableEq, Repr

/-- Where the holder of `failure_lock` is inside its block. -/
inductive FStage where
  | acquired
  | counted                  -- `error_count += 1` done
  | firstSet                 -- `if not first_node_error: first_node_error = …` done
  | done                     -- `if … : stop = True` done; the lock is still held
deriving DecidableEq, Repr

/-- The holder of `failure_lock`: worker `w`, whose call of node `x` raised; `oldFirst` is `first_node_error` as it was when
    the lock was taken. -/
structure FRegion where
  w        : Nat
  x        : Nat
  stage    : FStage
  oldFirst : Option Nat
deriving DecidableEq, Repr

/-- `c` holds the ACTUAL values of every variable (`c.rem` is `remaining_pred_count_mapping` as it is in memory); the
    control state `c.ws[w]` of the lock holder stays `releasing x todo` until its `queue.put` step, and is
    `releasing x (todo.erase y)` from then on. -/
structure St2 where
  c     : St
  lock  : Option Region
  flock : Option FRegion

inductive Label2 where
  | base (l : Label)      -- any step of the coarse model, except the one-step handling of a multi-parent successor
  | acquire (w y : Nat)
  | dec (w : Nat)
  | test (w : Nat)
  | put (w : Nat)
  | unlock (w : Nat)
  | facquire (w : Nat)
  | fcount (w : Nat)
  | ffirst (w : Nat)
  | fstop (w : Nat)
  | funlock (w : Nat)
deriving DecidableEq, Repr

def labelWorker : Label → Option Nat
  | .get w _ => some w
  | .check w => some w
  | .finOk w => some w
  | .finFail w => some w
  | .release w _ => some w
  | .taskDone w => some w
  | _ => none

def holds (s : St2) (w : Nat) : Bool :=
  (match s.lock with
   | some r => r.w == w
   | none => false) ||
  (match s.flock with
   | some r => r.w == w
   | none => false)

/-- a thread inside the block does nothing else until it has left it -/
def blocked (s : St2) (l : Label) : Bool :=
  match labelWorker l with
  | some w => holds s w
  | none => false

def init2 (g : Graph) : St2 := ⟨init g, none, none⟩

def step2? (g : Graph) (cfg : Cfg) (s : St2) : Label2 → Option St2
  | .base l =>
    if blocked s l then none
    else
      match l with
      | .release _ y =>
        -- only single-parent successors are handled without the lock
        if classify (g.predCount y) == Kind.single then (step? g cfg s.c l).map (fun c' => { s with c := c' }) else none
      | .finFail _ => none      -- the failure bookkeeping always goes through the `failure_lock` block
      | _ => (step? g cfg s.c l).map (fun c' => { s with c := c' })
  | .acquire w y =>
    match s.lock, s.c.ws[w]? with
    | none, some (.releasing x todo) =>
      if y ∈ todo ∧ ¬ (classify (g.predCount y) == Kind.single) then some { s with lock := some ⟨w, x, todo, y, .acquired⟩ }
      else none
    | _, _ => none
  | .dec w =>
    match s.lock with
    | some r =>
      if r.w = w ∧ r.stage = .acquired then
        some { s with c := { s.c with rem := fun z => if z = r.y then s.c.rem r.y - 1 else s.c.rem z }
                      lock := some { r with stage := .decremented } }
      else none
    | none => none
  | .test w =>
    match s.lock with
    | some r =>
      if r.w = w ∧ r.stage = .decremented then some { s with lock := some { r with stage := .tested (readyCond (s.c.rem r.y)) } }
      else none
    | none => none
  | .put w =>
    match s.lock with
    | some r =>
      match r.stage with
      | .tested b =>
        if r.w = w then
          some { s with c := { setW s.c w (.releasing r.x (r.todo.erase r.y)) with
                                 rel := s.c.rel ++ [(r.x, r.y)]
                                 queue := if b then s.c.queue ++ [.node r.y] else s.c.queue
                                 unfinished := if b then s.c.unfinished + 1 else s.c.unfinished
                                 enq := if b then s.c.enq ++ [r.y] else s.c.enq }
                        lock := some { r with stage := .done } }
        else none
      | _ => none
    | none => none
  | .unlock w =>
    match s.lock with
    | some r => if r.w = w ∧ r.stage = .done then some { s with lock := none } else none
    | none => none
  | .facquire w =>
    match s.flock, s.c.ws[w]? with
    | none, some (.running x) => some { s with flock := some ⟨w, x, .acquired, s.c.first⟩ }
    | _, _ => none
  | .fcount w =>
    match s.flock with
    | some r =>
      if r.w = w ∧ r.stage = .acquired then
        some { s with c := { s.c with errs := s.c.errs + 1 }, flock := some { r with stage := .counted } }
      else none
    | none => none
  | .ffirst w =>
    match s.flock with
    | some r =>
      if r.w = w ∧ r.stage = .counted then
        some { s with c := { s.c with first := match s.c.first with | some f => some f | none => some r.x }
                      flock := some { r with stage := .firstSet } }
      else none
    | none => none
  | .fstop w =>
    match s.flock with
    | some r =>
      if r.w = w ∧ r.stage = .firstSet then
        some { s with c := { setW s.c w (.finishing false) with
                               stop := s.c.stop || Uberjob.Gen.Engine.stopCond s.c.errs cfg.maxErr
                               failed := s.c.failed ++ [r.x], retired := s.c.retired ++ [r.x]
                               log := s.c.log ++ [.fail r.x] }
                      flock := some { r with stage := .done } }
      else none
    | none => none
  | .funlock w =>
    match s.flock with
    | some r => if r.w = w ∧ r.stage = .done then some { s with flock := none } else none
    | none => none

inductive Reach2 (g : Graph) (cfg : Cfg) : St2 → Prop where
  | init : Reach2 g cfg (init2 g)
  | step {s s' : St2} (l : Label2) : Reach2 g cfg s → step2? g cfg s l = some s' → Reach2 g cfg s'

def run2? (g : Graph) (cfg : Cfg) (s : St2) : List Label2 → Option St2
  | [] => some s
  | l :: ls => match step2? g cfg s l with
    | some s' => run2? g cfg s' ls
    | none => none

theorem reach2_of_run {g : Graph} {cfg : Cfg} {s s' : St2} {ls : List Label2}
    (h : Reach2 g cfg s) (hr : run2? g cfg s ls = some s') : Reach2 g cfg s' := by
  induction ls generalizing s with
  | nil => simp [run2?] at hr; exact hr ▸ h
  | cons l ls ih =>
    simp only [run2?] at hr
    split at hr
    · next s1 h1 => exact ih (Reach2.step l h h1) hr
    · exact absurd hr (by simp)

/-- `remaining_pred_count_mapping` with the pending decrement undone. -/
def bump (rem : Nat → Nat) (y : Nat) : Nat → Nat := fun z => if z = y then rem y + 1 else rem z

/-- The coarse state a fine state stands for: the block takes effect, as a whole, at its `queue.put` step; before that
    step the decrement (if already done) is not yet visible. -/
def absR (lock : Option Region) (c : St) : St :=
  match lock with
  | some r =>
    match r.stage with
    | .decremented => { c with rem := bump c.rem r.y }
    | .tested _ => { c with rem := bump c.rem r.y }
    | _ => c
  | none => c

/-- ... and the failure block takes effect at its `stop` step: before it, the count and the first error it has already
    written are not yet visible. -/
def absF (flock : Option FRegion) (c : St) : St :=
  match flock with
  | some r =>
    match r.stage with
    | .counted => { c with errs := c.errs - 1 }
    | .firstSet => { c with errs := c.errs - 1, first := r.oldFirst }
    | _ => c
  | none => c

def abs (s : St2) : St := absF s.flock (absR s.lock s.c)

end Uberjob.EngineFine
