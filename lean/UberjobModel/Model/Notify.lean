import UberjobModel.Model.Engine
import UberjobModel.Model.Progress
/-!
  What a ProgressObserver is told during `uberjob.run`, read off the engine's event log.  Core Lean only.
-/
namespace Uberjob.Notify
open Uberjob.Engine Uberjob.Progress

/-- One phase of `uberjob.run`: an engine invocation over `nodes`; `isCall x` — node `x` is a `Call` (other nodes
    are processed silently); `sc x` — the scope id under which it is reported; `sec` — "stale" or "run". -/
structure Phase where
  sec    : Nat
  nodes  : List Nat
  isCall : Nat → Bool
  sc     : Nat → Nat
  log    : List Engine.Ev

def Phase.key (p : Phase) (x : Nat) : Key := (p.sec, p.sc x)

/-- `increment_running` at the start of `process`, `increment_completed` / `increment_failed` at its end. -/
def Phase.notif (p : Phase) : Engine.Ev → Option Notif
  | .begin x => if p.isCall x then some (.running p.sec (p.sc x)) else none
  | .ok x => if p.isCall x then some (.completed p.sec (p.sc x)) else none
  | .fail x => if p.isCall x then some (.failed p.sec (p.sc x)) else none

def Phase.calls (p : Phase) : List Nat := p.nodes.filter p.isCall

/-- distinct scopes of the calls, in first-occurrence order (`collections.Counter` iteration order) -/
abbrev dedupNat : List Nat → List Nat := Engine.dedup

/-- `_update_*_totals`: one `increment_total(section, scope, amount=count)` per scope. -/
def Phase.totals (p : Phase) : List Notif :=
  (dedupNat (p.calls.map p.sc)).map (fun c => .total p.sec c ((p.calls.filter (fun x => p.sc x == c)).length))

def Phase.events (p : Phase) : List Notif := p.log.filterMap p.notif

def Phase.block (p : Phase) : List Notif := p.totals ++ p.events

/-- all blocks of a run, in order -/
def blocks (ps : List Phase) : List Notif := ps.flatMap Phase.block

/-- the whole run: enter, the blocks of its phases, exit -/
def runNotifs (ps : List Phase) : List Notif := [.enter] ++ blocks ps ++ [.exit]

def showNotif : Notif → String
  | .enter => "enter"
  | .exit => "exit"
  | .total s c n => s!"total {s} {c} {n}"
  | .running s c => s!"running {s} {c}"
  | .completed s c => s!"completed {s} {c}"
  | .failed s c => s!"failed {s} {c}"

def parseEv (t : String) : Option Engine.Ev :=
  match t.trimAscii.toString.splitOn ":" with
  | ["b", x] => x.toNat?.map .begin
  | ["o", x] => x.toNat?.map .ok
  | ["f", x] => x.toNat?.map .fail
  | _ => none

/-- `notifs SEC | n0 n1 … | c0 c1 … (the Call nodes) | x:scope x:scope … | b:x o:x f:x …`  → the phase's block -/
def drv (line : String) : String :=
  match line.splitOn "|" with
  | [hd, ns, cs, scs, lg] =>
    match (hd.trimAscii.toString.splitOn " ").filter (· ≠ "") with
    | ["notifs", sec] =>
      match sec.toNat? with
      | some sec =>
        let nats := fun (s : String) => (s.splitOn " ").filterMap (fun t => t.trimAscii.toString.toNat?)
        let nodes := nats ns
        let calls := nats cs
        let scl : List (Nat × Nat) := (scs.splitOn " ").filterMap (fun t =>
          match t.trimAscii.toString.splitOn ":" with
          | [a, b] => do some ((← a.toNat?), (← b.toNat?))
          | _ => none)
        let p : Phase := { sec := sec, nodes := nodes, isCall := fun x => calls.contains x,
                           sc := fun x => ((scl.find? (·.1 == x)).map (·.2)).getD 0,
                           log := (lg.splitOn " ").filterMap parseEv }
        " ; ".intercalate (p.block.map showNotif)
      | none => "bad-op"
    | _ => "bad-op"
  | _ => "bad-op"

end Uberjob.Notify
