import UberjobModel.Model.Time
/-!
Driver commands for the datetime model (C18).  Stateless, one request per line.

* `c18 stale <H> | <base> <T>:<off> <T>:<off> … | <fresh> | <node> ; <node> ; …`
    - `<H>`: `cur` (the handling generated from the source), `convertLocal`, `keepNaive`
    - zone: offset before the first transition, then transitions `(instant, offset from there on)` in increasing order
    - `<fresh>`: `-` (None) or a datetime `N:<wall>:<fold 0|1>` (naive) / `A:<wall>:<utcoffset>` (aware)
    - `<node>`: `<p,p,…|->  <u|s|n>  <datetime|->`  — predecessors (indices), unregistered / source / non-source store,
      what `get_modified_time` returns
  reply `stale <0|1>… | conv <fresh'> <t'>…` — the stale flags in node order, and the converted values
  (`_to_naive_utc_time`) of `fresh_time` and of every stored time (`-` for None)
* `c18 ft | <zone> | <i> <i> …` → `N:<wall>:<fold> …` — `datetime.fromtimestamp(i)` in that zone

All numbers are integers on the microsecond scale.
-/
namespace Uberjob.Time
open Uberjob.Gen.TimeConv (Handling naiveHandling)

namespace Drv

def toks (s : String) (sep : String := " ") : List String :=
  ((s.splitOn sep).map (fun t => t.trimAscii.toString)).filter (· ≠ "")

def parseHandling : String → Option Handling
  | "cur" => some naiveHandling
  | "convertLocal" => some .convertLocal
  | "keepNaive" => some .keepNaive
  | _ => none

def parseZone (s : String) : Option (Int × List (Int × Int)) :=
  match toks s with
  | [] => none
  | b :: rest => do
    let base ← b.toInt?
    let trs ← rest.mapM (fun t =>
      match t.splitOn ":" with
      | [x, o] => do some ((← x.toInt?), (← o.toInt?))
      | _ => none)
    some (base, trs)

def parseDT (s : String) : Option (Option DT) :=
  if s == "-" then some none else
  match s.splitOn ":" with
  | ["N", w, f] => do
    let w ← w.toInt?
    let f ← (if f == "0" then some false else if f == "1" then some true else none)
    some (some (.naive w f))
  | ["A", w, o] => do some (some (.aware (← w.toInt?) (← o.toInt?)))
  | _ => none

def parseNode (s : String) : Option (Node DT) :=
  match toks s with
  | [ps, k, d] => do
    let preds ← (if ps == "-" then some [] else (ps.splitOn ",").mapM (fun t => t.toNat?))
    let d ← parseDT d
    match k with
    | "u" => some ⟨preds, none⟩
    | "s" => some ⟨preds, some (true, d)⟩
    | "n" => some ⟨preds, some (false, d)⟩
    | _ => none
  | _ => none

def showOpt : Option Int → String
  | none => "-"
  | some i => toString i

def showDT : DT → String
  | .naive w f => s!"N:{w}:{if f then 1 else 0}"
  | .aware w o => s!"A:{w}:{o}"

def cmdStale (parts : List String) : String :=
  match parts with
  | [hd, z, fr, ns] =>
    match toks hd with
    | ["c18", "stale", h] =>
      match parseHandling h, parseZone z, parseDT fr.trimAscii.toString, (toks ns ";").mapM parseNode with
      | some h, some (base, trs), some fresh, some nodes =>
        let tz := TZ.table base trs
        let cv := toNaiveUtc h tz
        let flags := (staleSet cv fresh nodes).map (fun b => if b then "1" else "0")
        let convs := nodes.map (fun n => match n.store with
          | some (_, some t) => toString (cv t)
          | _ => "-")
        "stale " ++ " ".intercalate flags ++ " | conv " ++ " ".intercalate (showOpt (fresh.map cv) :: convs)
      | _, _, _, _ => "bad-op"
    | _ => "bad-op"
  | _ => "bad-op"

def cmdFt (parts : List String) : String :=
  match parts with
  | [_, z, is] =>
    match parseZone z, (toks is).mapM (fun t => t.toInt?) with
    | some (base, trs), some is =>
      let tz := TZ.table base trs
      " ".intercalate (is.map (fun i => showDT (fromTimestamp tz i)))
    | _, _ => "bad-op"
  | _ => "bad-op"

end Drv

def drv (line : String) : String :=
  let parts := line.splitOn "|"
  match Drv.toks (parts.headD "") with
  | "c18" :: "stale" :: _ => Drv.cmdStale parts
  | "c18" :: "ft" :: _ => Drv.cmdFt parts
  | _ => "bad-op"

end Uberjob.Time
