import UberjobModel.Model.Progress
/-!
Driver commands of the `Progress` model (stateless, one request per line):

* `progress pstr c f r t`                      → `progressString`
* `progress estr n`                            → `elapsedString`
* `progress cell OP c f r tot inset rc [amt]`  → one generated bookkeeping method on one cell (`OP` ∈ tot run com fai)
* `progress legal N ; N ; …`                   → `legal=b pos=b within=b first=b` for the whole sequence (`N` as below, plus `enter`, `exit`)
* `progress obs MAXINT START | E ; E ; …`      → the state after every event, separated by ` | `
      `E` = `n T tot SEC SC AMT` | `n T run SEC SC` | `n T com SEC SC` | `n T fai SEC SC` | `w T T2`
* `progress sort FB | ITEM ; ITEM ; …`         → `natural i j …` | `fallback i j …` | `raise`
      `ITEM` = elements separated by `,`; element = `TYPE:STR:VAL`, strings as code points joined by `.`,
      `VAL` = `i<int>` | `s<codepoints>` | `N` | `b0` | `b1` | `c<re>_<im>` | `o<id>` | `t<atom>+<atom>…`
Rationals are `num/den` or integers.
-/
namespace Uberjob.Progress
open Uberjob.Gen.Progress

namespace Drv

def toks (s : String) : List String := (s.splitOn " ").filter (· ≠ "")

def parseRat (s : String) : Option Rat :=
  match s.splitOn "/" with
  | [a] => a.toInt?.map (fun i => (i : Rat))
  | [a, b] => do
    let n ← a.toInt?
    let d ← b.toNat?
    if d = 0 then none else some ((n : Rat) / (d : Rat))
  | _ => none

def showRat (q : Rat) : String := s!"{q.num}/{q.den}"

def parseNotif : List String → Option Notif
  | ["enter"] => some .enter
  | ["exit"] => some .exit
  | ["tot", a, b, n] => do some (.total (← a.toNat?) (← b.toNat?) (← n.toNat?))
  | ["run", a, b] => do some (.running (← a.toNat?) (← b.toNat?))
  | ["com", a, b] => do some (.completed (← a.toNat?) (← b.toNat?))
  | ["fai", a, b] => do some (.failed (← a.toNat?) (← b.toNat?))
  | _ => none

def parseEv : List String → Option Ev
  | "n" :: t :: rest => do some (.notif (← parseRat t) (← parseNotif rest))
  | ["w", t, t2] => do some (.wake (← parseRat t) (← parseRat t2))
  | _ => none

def showCell (c : Cell) : String :=
  s!"{c.completed},{c.failed},{c.running},{c.total},{if c.inSet then 1 else 0}"

def showObs (start : Rat) (evs : List Ev) (o : Obs) : String :=
  let ks := " ".intercalate (o.st.keys.map (fun k => s!"{k.1},{k.2}:{showCell (o.st.cell k)},{showRat (o.st.weighted k)}"))
  let sk := ",".intercalate ((o.con.skipped.toArray.qsort (· < ·)).toList.map toString)
  let last := match o.last with | some t => showRat t | none => "-"
  let lastSeen := match o.outs.getLast? with | some out => toString out.seen | none => "-"
  s!"keys=[{ks}] rc={o.st.rc} prev={showRat o.st.prev} stale={if o.stale then 1 else 0} last={last} outs={o.outs.length} lastSeen={lastSeen} skipped=[{sk}] sumw={showRat (sumWeighted o.st)} busy={showRat (busyUpTo start evs o.st.prev)} html={if htmlRenderOk o.st then 1 else 0}"

def showErr : Err → String
  | .missingKey => "missingKey"
  | .removeAbsent => "removeAbsent"

partial def obsLoop (m start : Rat) (o : Obs) (done : List Ev) (rest : List Ev) (acc : List String) : List String :=
  match rest with
  | [] => acc.reverse
  | ev :: rest =>
    match o.step m ev with
    | .ok o' => obsLoop m start o' (done ++ [ev]) rest (showObs start (done ++ [ev]) o' :: acc)
    | .error e => (("err " ++ showErr e) :: acc).reverse

def cmdObs (rest : String) : String :=
  match rest.splitOn "|" with
  | [hd, evs] =>
    match toks hd with
    | [m, st] =>
      match parseRat m, parseRat st with
      | some m, some st =>
        let es := (evs.splitOn ";").map toks |>.filter (· ≠ [])
        match es.mapM parseEv with
        | some es => " | ".intercalate (obsLoop m st (Obs.init st) [] es [])
        | none => "bad-op"
      | _, _ => "bad-op"
    | _ => "bad-op"
  | _ => "bad-op"

def b2s (b : Bool) : String := if b then "1" else "0"

def cmdLegal (rest : String) : String :=
  let ns := (rest.splitOn ";").map toks |>.filter (· ≠ [])
  match ns.mapM parseNotif with
  | some l =>
    s!"legal={b2s (decide (Legal l))} pos={b2s (decide (PosTotals (body l)))} within={b2s (decide (WithinTotals (body l)))} first={b2s (decide (TotalsFirst (body l)))}"
  | none => "bad-op"

def showRes : Res → String
  | .ok c rc => s!"ok {showCell c} {rc}"
  | .removeAbsent => "removeAbsent"

def cmdCell : List String → String
  | op :: c :: f :: r :: t :: i :: rc :: rest =>
    match c.toInt?, f.toInt?, r.toInt?, t.toInt?, rc.toInt? with
    | some c, some f, some r, some t, some rc =>
      let cell : Cell := { completed := c, failed := f, running := r, total := t, inSet := i == "1" }
      match op, rest with
      | "tot", [a] => match a.toInt? with | some a => showRes (stepTotal cell rc a) | none => "bad-op"
      | "run", [] => showRes (stepRunning cell rc)
      | "com", [] => showRes (stepCompleted cell rc)
      | "fai", [] => showRes (stepFailed cell rc)
      | _, _ => "bad-op"
    | _, _, _, _, _ => "bad-op"
  | _ => "bad-op"

def parseStr (s : String) : Option String :=
  if s == "" then some "" else
  ((s.splitOn ".").mapM (fun (t : String) => t.toNat?)).map (fun cs => String.ofList (cs.map Char.ofNat))

def parseAtom (s : String) : Option Atom :=
  if s == "N" then some .none
  else if s == "b0" then some (.bool false)
  else if s == "b1" then some (.bool true)
  else if s.startsWith "i" then (s.drop 1).toString.toInt?.map .int
  else if s.startsWith "s" then (parseStr (s.drop 1).toString).map .str
  else if s.startsWith "o" then (s.drop 1).toString.toNat?.map .obj
  else if s.startsWith "c" then
    match (s.drop 1).toString.splitOn "_" with
    | [a, b] => do some (.cplx (← a.toInt?) (← b.toInt?))
    | _ => none
  else none

def parseVal (s : String) : Option PyVal :=
  if s.startsWith "t" then
    let body := (s.drop 1).toString
    if body == "" then some (.tup []) else ((body.splitOn "+").mapM parseAtom).map .tup
  else (parseAtom s).map .atom

def parseElt (s : String) : Option ScopeElt :=
  match s.splitOn ":" with
  | [a, b, v] => do some { typeName := (← parseStr a), strValue := (← parseStr b), value := (← parseVal v) }
  | _ => none

def parseItem (s : String) : Option (List ScopeElt) :=
  let s := s.trimAscii.toString
  if s == "-" then some [] else ((s.splitOn ",").map (·.trimAscii.toString)).mapM parseElt

def cmdSort (rest : String) : String :=
  match rest.splitOn "|" with
  | [hd, items] =>
    let fb := hd.trimAscii.toString == "1"
    let its := (items.splitOn ";").map (·.trimAscii.toString) |>.filter (· ≠ "")
    match its.mapM parseItem with
    | some its =>
      let idx := (List.range its.length).zip its
      let nat := fun (a b : Nat × List ScopeElt) => naturalLt? a.2 b.2
      let fbl := fun (a b : Nat × List ScopeElt) => fallbackLt a.2 b.2
      let path := match sortBy nat idx with | some _ => "natural" | none => "fallback"
      match sortedScopeItems fb nat fbl idx with
      | some r => path ++ " " ++ " ".intercalate (r.map (fun p => toString p.1))
      | none => "raise"
    | none => "bad-op"
  | _ => "bad-op"

end Drv

/-- entry point used by `Driver.lean` -/
def drv (line : String) : String :=
  let line := line.trimAscii.toString
  match Drv.toks line with
  | _ :: "pstr" :: [c, f, r, t] =>
    match c.toNat?, f.toNat?, r.toNat?, t.toNat? with
    | some c, some f, some r, some t => progressString c f r t
    | _, _, _, _ => "bad-op"
  | _ :: "estr" :: [n] => match n.toNat? with | some n => elapsedString n | none => "bad-op"
  | _ :: "cell" :: rest => Drv.cmdCell rest
  | _ :: "legal" :: _ => Drv.cmdLegal (line.drop ("progress legal".length)).toString
  | _ :: "obs" :: _ => Drv.cmdObs (line.drop ("progress obs".length)).toString
  | _ :: "sort" :: _ => Drv.cmdSort (line.drop ("progress sort".length)).toString
  | _ => "bad-op"

end Uberjob.Progress
