/-!
  # The default scheduler's priorities (`_execution/greedy.py`)   (C07: `run` must get as far as starting its workers)

  `get_priority_mapping(graph)` orders the PSEUDO-SINKS (nodes without an outgoing argument edge) by a topological sort of a
  condensation of the graph - networkx union-find, strongly connected components and `topological_sort`: library code, not
  modelled, its result (`sinks`, some ordering of the pseudo-sinks) is an input here - and then numbers every node in the
  order in which `pred_search` reaches it: a depth-first walk over ALL predecessors from the pseudo-sinks, one after the other.

  `search` is `pred_search` (the Python list used as a stack is a list whose head is the top; the result is in reverse order of
  discovery), `order` the sequence of nodes as `enumerate` numbers them.  The queue of the default scheduler gives a node
  without an entry the priority of the DONE sentinel; `Lemmas/Greedy.lean` shows that on a DAG there is no such node.
-/
namespace Uberjob.Greedy

/-- `visited = set(); nodes.reverse(); while nodes: node = nodes.pop(); if node in visited: continue; yield node;
     for predecessor in graph.pred[node]: nodes.append(predecessor); visited.add(node)` -/
def search (preds : Nat → List Nat) : Nat → List Nat → List Nat → Option (List Nat)
  | _, [], out => some out
  | 0, _ :: _, _ => none
  | f + 1, x :: rest, out =>
    if x ∈ out then search preds f rest out else search preds f ((preds x).reverse ++ rest) (x :: out)

structure Gr where
  n : Nat
  /-- `graph.pred[v]`: the distinct predecessors of `v`, in the mapping's iteration order -/
  preds : Nat → List Nat
  /-- there is an edge `u → v` that is not a plain Dependency -/
  arg : Nat → Nat → Bool

def Gr.edges (g : Gr) : Nat := ((List.range g.n).map (fun v => (g.preds v).length)).sum

def Gr.isSink (g : Gr) (u : Nat) : Bool := (List.range g.n).all (fun v => !g.arg u v)

/-- enough steps for any walk: every node is expanded at most once, every stack entry popped once -/
def Gr.fuel (g : Gr) (sinks : List Nat) : Nat := sinks.length + g.n + g.edges + 1

/-- the nodes in the order `enumerate(pred_search(graph, pseudo_sinks))` numbers them -/
def order (g : Gr) (sinks : List Nat) : Option (List Nat) := (search g.preds (g.fuel sinks) sinks []).map List.reverse

/-- `priority_mapping.get(node, -1)` -/
def priority (g : Gr) (sinks : List Nat) (v : Nat) : Int :=
  match order g sinks with
  | some o => if v ∈ o then (o.idxOf v : Int) else -1
  | none => -1

end Uberjob.Greedy
