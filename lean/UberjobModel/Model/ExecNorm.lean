import UberjobModel.Model.Exec
/-!
  NORMALISING value stores: a store whose `read()` returns a function `nm i` of what `write` was given (a JSON store turns
  tuples into lists, a text store changes line endings, a database rounds, ...), for an ARBITRARY `nm`.

  `execNodeN` is `Exec.execNode` with the only change a normalising store makes: `write i` leaves `nm i (value)` in store `i`.
  Everything else is as before — in particular `read i` returns what the store holds, and a consumer of `i` is bound to the
  slot of `read i` (`prep_run_physical` on the plan `plan_with_value_stores` builds), never to the slot of `orig i`.

  `normalise` is the from-scratch semantics under such stores: the value of every stored (registered, non-source) call
  passes through its store before anybody else sees it.  `Lemmas/ExecNorm.lean` proves that the normalised execution is, node by node,
  the `normalise`-image of the plain one (`Exec.execNode`), for every schedule of the engine model.

  Core Lean only (linked into the driver).
-/
namespace Uberjob.Exec
open Uberjob.Phys Uberjob.Cache

mutual
  /-- what the consumers see of a value computed from scratch when the results of the calls in `st` pass through stores that
      normalise with `nm` -/
  def normalise (st : Nat → Bool) (nm : Nat → V → V) : V → V
    | .app i args => if st i then nm i (.app i (normaliseL st nm args)) else .app i (normaliseL st nm args)
    | .src s v => .src s v
    | .missing i => .missing i
    | .junk k => .junk k
  def normaliseL (st : Nat → Bool) (nm : Nat → V → V) : List V → List V
    | [] => []
    | a :: t => normalise st nm a :: normaliseL st nm t
end

/-- the stored calls of a plan: registered, not a source -/
def _root_.Uberjob.Phys.Input.stored (P : Input) (i : Nat) : Bool := P.regOf i == some false

def execNodeN (P : Input) (nm : Nat → V → V) (G : PG PN) (x : XSt) : PN → XSt
  | .write i => { x with w := x.w.set i (some (nm i (x.get P (.orig i)), x.clock)), clock := x.clock + 1 }
  | a => execNode P G x a

def execOrderN (P : Input) (nm : Nat → V → V) (x : XSt) (order : List Nat) : XSt :=
  order.foldl (fun x n => execNodeN P nm (physFinal P) x (decode n)) x

/-- the normalisation the driver uses to mirror the harness's `NormStore` (whose `read` wraps what was written in a tagged
    tuple): a fresh unary function symbol per store -/
def normBase : Nat := 1000000
def tagNorm (i : Nat) (v : V) : V := .app (normBase + i) [v]

end Uberjob.Exec
