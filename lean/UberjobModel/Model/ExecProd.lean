import UberjobModel.Model.Exec
/-!
  PRODUCERS: a user call that, as a side effect, rewrites the content of a DEPENDENT SOURCE (a `registry.source` node that
  depends on the call through `plan.add_dependency`; the repository's `test_source_dependent_on_write`, a PathSource of a
  file some call writes).  `pr j = some d`: call `j` rewrites source `d`.

  `execNodeP` is `Exec.execNode` plus that side effect: when `orig j` completes, store `d` holds what `j` produced (the term
  `app j args` stands for "the content `j` computes from these arguments") with a modified time newer than everything
  before it.  Everything else is unchanged; in particular a consumer of `d` is bound to `read d`, which the physical plan
  orders after the Barrier of `d`, which is ordered after `j`.

  Core Lean only (linked into the driver).
-/
namespace Uberjob.Exec
open Uberjob.Phys Uberjob.Cache

def execNodeP (P : Input) (pr : Nat → Option Nat) (G : PG PN) (x : XSt) : PN → XSt
  | .orig j =>
    if P.lits.contains j then x
    else
      let v := V.app j ((argSrcs G (.orig j)).map (x.get P))
      let x1 := setSlot x (.orig j) v
      match pr j with
      | some d => { x1 with w := x1.w.set d (some (v, x1.clock)), clock := x1.clock + 1 }
      | none => x1
  | a => execNode P G x a

def execOrderP (P : Input) (pr : Nat → Option Nat) (x : XSt) (order : List Nat) : XSt :=
  order.foldl (fun x n => execNodeP P pr (physFinal P) x (decode n)) x

end Uberjob.Exec
