import UberjobModel.Gen.TextCodec
/-!
# Newline translation of Python text files (`open(..., newline=…)`) and the byte codecs around it

A Python `str` is a sequence of code points `0 … 0x10FFFF` (lone surrogates included), here `List Nat`.
`TextIOWrapper` translates newlines on the *character* level: on write before encoding, on read after decoding.

* write: `newline=None` replaces `"\n"` by `os.linesep`; `""` and `"\n"` leave the text alone; `"\r"` / `"\r\n"`
  replace `"\n"` by that string.
* read (of the whole file): only `newline=None` translates — `"\r\n"` and a lone `"\r"` both become `"\n"`;
  every other value returns the text untouched (they only influence where `readline` splits).

The byte codec (`encoding=`) is a parameter (`Encoding`); CPython's codecs are trusted to round-trip.
`utf8`, `utf16`, `latin1` below are executable encoders used by the driver to predict which strings are
encodable and the exact bytes on disk.
-/
namespace Uberjob.TextCodec
open Uberjob.Gen.TextCodec (Newline)

abbrev Str := List Nat
abbrev Bytes := List Nat

def LF : Nat := 10
def CR : Nat := 13

/-- `os.linesep` on POSIX -/
def posix : Str := [LF]
/-- `os.linesep` on Windows -/
def windows : Str := [CR, LF]

/-- what `"\n"` is replaced with on write (`none`: nothing is replaced) -/
def writeSep (linesep : Str) : Newline → Option Str
  | .universal => some linesep
  | .empty => none
  | .lf => none
  | .cr => some [CR]
  | .crlf => some [CR, LF]

/-- text as handed to the encoder by `f.write(s)` of a file opened with `newline=nl` -/
def encodeText (linesep : Str) (nl : Newline) (s : Str) : Str :=
  match writeSep linesep nl with
  | none => s
  | some sep => s.flatMap (fun c => if c = LF then sep else [c])

/-- universal-newline translation; `pendingCR` = the previous character was a CR (already delivered as LF),
    exactly the state of CPython's `IncrementalNewlineDecoder` -/
def univ : Bool → Str → Str
  | _, [] => []
  | pendingCR, c :: r =>
    if c = CR then LF :: univ true r
    else if c = LF then (if pendingCR then univ false r else LF :: univ false r)
    else c :: univ false r

def universalRead (s : Str) : Str := univ false s

/-- text returned by `f.read()` of a file opened with `newline=nl` whose decoded content is `s` -/
def decodeText : Newline → Str → Str
  | .universal, s => universalRead s
  | _, s => s

/-- specification-level description of universal newlines: first every `"\r\n"`, then every remaining `"\r"` -/
def replaceCRLF : Str → Str
  | [] => []
  | [c] => [c]
  | c :: d :: r => if c = CR ∧ d = LF then LF :: replaceCRLF r else c :: replaceCRLF (d :: r)

def replaceCR (s : Str) : Str := s.map (fun c => if c = CR then LF else c)

/-- the write side leaves every string alone -/
def writeTransparent (linesep : Str) (nl : Newline) : Bool :=
  match writeSep linesep nl with
  | none => true
  | some sep => sep == [LF]

/-- the read side leaves every string alone -/
def readTransparent : Newline → Bool
  | .universal => false
  | _ => true

/-! ## byte codecs -/

structure Encoding where
  /-- `none` = `UnicodeEncodeError` -/
  enc : Str → Option Bytes
  /-- `none` = `UnicodeDecodeError` -/
  dec : Bytes → Option Str

/-- decoding what was encoded gives the string back (the assumption made of CPython's codecs) -/
def Encoding.Roundtrip (e : Encoding) : Prop := ∀ s b, e.enc s = some b → e.dec b = some s

/-- bytes put on disk by `TextFileStore(path, encoding=e).write(s)` (`none`: the write raises, see C11) -/
def textWrite (e : Encoding) (linesep : Str) (nl : Newline) (s : Str) : Option Bytes := e.enc (encodeText linesep nl s)

/-- value returned by `TextFileStore(path, encoding=e).read()` for a file holding `b` -/
def textRead (e : Encoding) (nl : Newline) (b : Bytes) : Option Str := (e.dec b).map (decodeText nl)

def latin1 : Encoding where
  enc s := if s.all (· < 256) then some s else none
  dec b := if b.all (· < 256) then some b else none

def isSurrogate (c : Nat) : Bool := 0xD800 ≤ c && c ≤ 0xDFFF

def utf8Char (c : Nat) : Option Bytes :=
  if c < 0x80 then some [c]
  else if c < 0x800 then some [0xC0 + c / 64, 0x80 + c % 64]
  else if c < 0x10000 then
    if isSurrogate c then none else some [0xE0 + c / 4096, 0x80 + c / 64 % 64, 0x80 + c % 64]
  else if c < 0x110000 then some [0xF0 + c / 262144, 0x80 + c / 4096 % 64, 0x80 + c / 64 % 64, 0x80 + c % 64]
  else none

/-- little-endian UTF-16 code units of one code point -/
def utf16Char (c : Nat) : Option Bytes :=
  if c < 0x10000 then
    if isSurrogate c then none else some [c % 256, c / 256]
  else if c < 0x110000 then
    let v := c - 0x10000
    let hi := 0xD800 + v / 1024
    let lo := 0xDC00 + v % 1024
    some [hi % 256, hi / 256, lo % 256, lo / 256]
  else none

def encodeWith (f : Nat → Option Bytes) : Str → Option Bytes
  | [] => some []
  | c :: r =>
    match f c, encodeWith f r with
    | some a, some b => some (a ++ b)
    | _, _ => none

/-- CPython's "utf-8" encoder (strict) -/
def utf8Enc (s : Str) : Option Bytes := encodeWith utf8Char s

/-- CPython's "utf-16" encoder (strict) on a little-endian machine: BOM `FF FE`, then little-endian units -/
def utf16Enc (s : Str) : Option Bytes := (encodeWith utf16Char s).map ([0xFF, 0xFE] ++ ·)

/-! ### the decoders (strict) -/

def isCont (b : Nat) : Bool := 0x80 ≤ b && b < 0xC0

def consOpt (c : Nat) (r : Option Str) : Option Str := r.map (c :: ·)

/-- CPython's "utf-8" decoder (strict): shortest form only, no surrogates, nothing above U+10FFFF, no truncated or stray
    continuation bytes.  (`fuel` = the number of bytes; every step consumes at least one.) -/
def utf8DecF : Nat → Bytes → Option Str
  | _, [] => some []
  | 0, _ :: _ => none
  | f + 1, b0 :: r =>
    if b0 < 0x80 then consOpt b0 (utf8DecF f r)
    else if b0 < 0xC0 then none
    else if b0 < 0xE0 then
      match r with
      | b1 :: r1 =>
        let c := (b0 - 0xC0) * 64 + (b1 - 0x80)
        if isCont b1 && decide (0x80 ≤ c) then consOpt c (utf8DecF f r1) else none
      | _ => none
    else if b0 < 0xF0 then
      match r with
      | b1 :: b2 :: r2 =>
        let c := (b0 - 0xE0) * 4096 + (b1 - 0x80) * 64 + (b2 - 0x80)
        if isCont b1 && isCont b2 && decide (0x800 ≤ c) && !isSurrogate c then consOpt c (utf8DecF f r2) else none
      | _ => none
    else if b0 < 0xF8 then
      match r with
      | b1 :: b2 :: b3 :: r3 =>
        let c := (b0 - 0xF0) * 262144 + (b1 - 0x80) * 4096 + (b2 - 0x80) * 64 + (b3 - 0x80)
        if isCont b1 && isCont b2 && isCont b3 && decide (0x10000 ≤ c) && decide (c < 0x110000) then consOpt c (utf8DecF f r3)
        else none
      | _ => none
    else none

def utf8Dec (b : Bytes) : Option Str := utf8DecF b.length b

/-- little-endian UTF-16 code units → code points (strict: no lone surrogates, no odd trailing byte) -/
def utf16UnitsF : Nat → Bytes → Option Str
  | _, [] => some []
  | 0, _ :: _ => none
  | f + 1, lo :: hi :: r =>
    if 256 ≤ lo || 256 ≤ hi then none
    else
      let u := lo + 256 * hi
      if u < 0xD800 || 0xE000 ≤ u then consOpt u (utf16UnitsF f r)
      else if u < 0xDC00 then
        match r with
        | lo2 :: hi2 :: r2 =>
          if 256 ≤ lo2 || 256 ≤ hi2 then none
          else
            let u2 := lo2 + 256 * hi2
            if 0xDC00 ≤ u2 && u2 < 0xE000 then consOpt (0x10000 + (u - 0xD800) * 1024 + (u2 - 0xDC00)) (utf16UnitsF f r2)
            else none
        | _ => none
      else none
  | _ + 1, [_] => none

def swapPairs : Bytes → Bytes
  | a :: b :: r => b :: a :: swapPairs r
  | r => r

/-- CPython's "utf-16" STREAM decoder (strict), the one a text file opened with `encoding="utf-16"` uses
    (`encodings/utf_16.py`, `IncrementalDecoder._buffer_decode`): a BOM selects the byte order and is dropped; a non-empty
    stream without one is rejected ("UTF-16 stream does not start with BOM"; unlike `bytes.decode`, which falls back to the
    native order) -/
def utf16Dec (b : Bytes) : Option Str :=
  match b with
  | 0xFF :: 0xFE :: r => utf16UnitsF r.length r
  | 0xFE :: 0xFF :: r => utf16UnitsF r.length (swapPairs r)
  | [] => some []
  | _ => none

def utf8 : Encoding := ⟨utf8Enc, utf8Dec⟩
def utf16 : Encoding := ⟨utf16Enc, utf16Dec⟩

end Uberjob.TextCodec
