import UberjobModel.Model.Refs
/-!
  Driver command of the `Refs` model (C16).

  `c16 | 0:U 1:G 2:L … | j:a,b j':c … | OUT or - | stored ids | dropped ids | TABLE(0/1)`
     node kinds: `U` user call, `G` container call (its value contains the values of its arguments), `L` literal
  reply: `slots <ids whose result cell is reachable> ; values <ids whose result object is alive>`
-/
namespace Uberjob.Refs

def nats (s : String) : List Nat :=
  (s.splitOn " ").filterMap (fun t => t.trimAscii.toString.toNat?)

def parseKinds (s : String) : List (Nat × String) :=
  (s.splitOn " ").filterMap (fun t =>
    match t.trimAscii.toString.splitOn ":" with
    | [a, k] => a.toNat?.map (fun a => (a, k))
    | _ => none)

def parseArgs (s : String) : List (Nat × List Nat) :=
  (s.splitOn " ").filterMap (fun t =>
    match t.trimAscii.toString.splitOn ":" with
    | [j, l] => j.toNat?.map (fun j => (j, (l.splitOn ",").filterMap (fun x => x.toNat?)))
    | _ => none)

def lookupArgs (tbl : List (Nat × List Nat)) (j : Nat) : List Nat :=
  match tbl.find? (fun e => e.1 == j) with
  | some e => e.2
  | none => []

def showNats (l : List Nat) : String := " ".intercalate (l.map toString)

def drv (line : String) : String :=
  match line.splitOn "|" with
  | [_, ns, as, out, st, dr, tb] =>
    let kinds := parseKinds ns
    let tbl := parseArgs as
    let kindOf := fun i => match kinds.find? (fun e => e.1 == i) with | some e => e.2 | none => "L"
    let g : G := { nodes := kinds.map (·.1)
                   isCall := fun i => kindOf i != "L"
                   args := lookupArgs tbl
                   output := out.trimAscii.toString.toNat? }
    let s : St := { tableLive := tb.trimAscii.toString == "1", stored := nats st, dropped := nats dr }
    let emb := fun j => if kindOf j == "G" then lookupArgs tbl j else []
    let slots := g.nodes.filter (fun i => g.isCall i && slotLive g s i)
    s!"slots {showNats slots} ; values {showNats (liveValues g s emb)}"
  | _ => "bad-op"

end Uberjob.Refs
