import UberjobModel.Gen.Stale
import UberjobModel.Gen.TimeConv
/-!
# Datetimes, time zones and the conversion the stale check applies (model for C18)

Instants and wall-clock readings are `Int`s on one scale (the harness uses microseconds; nothing here depends on
the unit except the constant `day`).

* `TZ` — a process-local time zone as CPython sees it: `offset i` is the UTC offset in force at the instant `i`
  (local wall reading = `i + offset i`, any function, DST jumps included); `fold i` is the PEP 495 fold bit that
  `datetime.fromtimestamp(i)` attaches; `decode wall fold` is the instant that `astimezone`/`timestamp` compute
  for a *naive* value.  `TZ.Lawful` is PEP 495's contract between the three — an explicit hypothesis of the
  theorems, never assumed globally.
* `DT` — a `datetime`: naive (wall reading + fold bit) or aware (wall reading + its own UTC offset).
* `Denotes tz d i` — the datetime `d` stands for the instant `i` in a process whose local zone is `tz`.
* `toNaiveUtc h tz` — `_to_naive_utc_time`, for either shape `h` of the source (`Gen.TimeConv.naiveHandling`
  says which one the source has now).  The result is a naive UTC reading, compared as a plain number
  (comparison of naive datetimes ignores `fold`).
* `staleFold` — `_get_stale_nodes` over nodes listed in a topological order, with the comparison being
  `Gen.Stale.staleCond` and the conversion applied where the source applies it.
* `TZ.cpython off` — CPython's own algorithms (`datetime._mktime` / `local_to_seconds`, and the fold detection
  of `fromtimestamp`) over an arbitrary offset function; `TZ.table` — a zone given by a transition table
  (what the driver uses for the real IANA zones).
-/
namespace Uberjob.Time
open Uberjob.Gen.Stale (staleCond safeMax)
open Uberjob.Gen.TimeConv (Handling naiveHandling)

structure TZ where
  /-- UTC offset in force at an instant: local wall reading of `i` is `i + offset i` -/
  offset : Int → Int
  /-- the fold bit `datetime.fromtimestamp(i)` reports (1 = second occurrence of a repeated wall reading) -/
  fold : Int → Bool
  /-- naive (wall, fold) ↦ instant, as `astimezone()` / `timestamp()` compute it -/
  decode : Int → Bool → Int

/-- The wall reading `w` occurs at exactly one instant, `i`. -/
def TZ.UniqueAt (tz : TZ) (w i : Int) : Prop := ∀ j, j + tz.offset j = w → j = i

/-- PEP 495: a naive local datetime produced from an instant decodes back to it; and where the wall reading is
    unambiguous the fold bit is ignored. -/
structure TZ.Lawful (tz : TZ) : Prop where
  roundTrip : ∀ i, tz.decode (i + tz.offset i) (tz.fold i) = i
  foldIgnored : ∀ i f, tz.UniqueAt (i + tz.offset i) i → tz.decode (i + tz.offset i) f = i

inductive DT where
  | naive (wall : Int) (fold : Bool)
  | aware (wall : Int) (off : Int)
deriving DecidableEq, Repr

/-- `datetime.fromtimestamp(i)` — what the bundled file stores report. -/
def fromTimestamp (tz : TZ) (i : Int) : DT := .naive (i + tz.offset i) (tz.fold i)

/-- `datetime.fromtimestamp(i, timezone(off))`. -/
def awareAt (off i : Int) : DT := .aware (i + off) off

/-- `d` stands for the instant `i` when the process's local zone is `tz`.
    naive: the local wall reading of `i`, with the fold bit PEP 495 gives it (any bit where it does not matter);
    aware: wall reading minus the value's own offset.  A naive reading inside a spring-forward gap denotes nothing. -/
def Denotes (tz : TZ) : DT → Int → Prop
  | .naive w f, i => w = i + tz.offset i ∧ (f = tz.fold i ∨ tz.UniqueAt w i)
  | .aware w off, i => w - off = i

def DenotesOpt (tz : TZ) : Option DT → Option Int → Prop
  | none, none => True
  | some d, some i => Denotes tz d i
  | _, _ => False

/-- `_to_naive_utc_time` on a datetime (None is handled by `Option.map`).  The result is the naive UTC reading. -/
def toNaiveUtc (h : Handling) (tz : TZ) : DT → Int
  | .aware w off => w - off
  | .naive w f =>
    match h with
    | .convertLocal => tz.decode w f
    | .keepNaive => w

/-- The conversion the current source performs. -/
abbrev conv (tz : TZ) : DT → Int := toNaiveUtc naiveHandling tz

/-! ## The stale fold -/

/-- One node of the plan: indices (into the processing order) of its predecessors, and its registered store if any:
    `(is_source, what get_modified_time returns)`. -/
structure Node (τ : Type) where
  preds : List Nat
  store : Option (Bool × Option τ)
deriving Repr

def Node.map {τ σ : Type} (f : τ → σ) (n : Node τ) : Node σ :=
  ⟨n.preds, n.store.map (fun p => (p.1, p.2.map f))⟩

/-- `process(node)`: result is `(stale_lookup[node], modified_time_lookup[node])`;
    `done` holds the results of the nodes already processed (index = position in the order). -/
def processNode {τ : Type} (cv : τ → Int) (fresh : Option Int) (done : List (Bool × Option Int)) (n : Node τ) :
    Bool × Option Int :=
  if n.preds.any (fun p => (done.getD p (false, none)).1) then (true, none)
  else
    let anc := safeMax (n.preds.map (fun p => (done.getD p (false, none)).2))
    match n.store with
    | none => (false, anc)
    | some (_, none) => (true, none)
    | some (isSource, some t) =>
      let mt := cv t
      if staleCond mt anc fresh isSource then (true, none) else (false, some mt)

def staleGo {τ : Type} (cv : τ → Int) (fresh : Option Int) (done : List (Bool × Option Int)) :
    List (Node τ) → List (Bool × Option Int)
  | [] => done
  | n :: rest => staleGo cv fresh (done ++ [processNode cv fresh done n]) rest

/-- `_get_stale_nodes`: `fresh_time` is converted first, every modified time when it is queried. -/
def staleFold {τ : Type} (cv : τ → Int) (fresh : Option τ) (nodes : List (Node τ)) : List (Bool × Option Int) :=
  staleGo cv (fresh.map cv) [] nodes

/-- The stale flags only (the set `_get_stale_nodes` returns). -/
def staleSet {τ : Type} (cv : τ → Int) (fresh : Option τ) (nodes : List (Node τ)) : List Bool :=
  (staleFold cv fresh nodes).map (·.1)

/-- Every datetime the run looks at. -/
def occurring {τ : Type} (fresh : Option τ) (nodes : List (Node τ)) : List τ :=
  fresh.toList ++ nodes.flatMap (fun n => match n.store with | some (_, some t) => [t] | _ => [])

/-! ## CPython's algorithms over an offset function -/

/-- `max_fold_seconds` of CPython's datetime module (24 h) on the microsecond scale. -/
def day : Int := 86400000000

/-- `datetime._mktime` (`local_to_seconds` in C): solve `wall = u + off u` for `u`, preferring the earlier
    solution for fold = 0 and the later for fold = 1; in a gap extrapolate with the offset before / after. -/
def cpyDecode (off : Int → Int) (t : Int) (fold : Bool) : Int :=
  let a := off t                      -- local(t) - t
  let u1 := t - a
  let t1 := u1 + off u1
  let b := if t1 = t then off (u1 + (if fold then day else -day)) else t1 - u1
  if t1 = t ∧ a = b then u1
  else
    let u2 := t - b
    let t2 := u2 + off u2
    if t2 = t then u2
    else if t1 = t then u1
    else if fold then min u1 u2 else max u1 u2

/-- fold detection of `datetime.fromtimestamp`. -/
def cpyFold (off : Int → Int) (i : Int) : Bool :=
  let trans := off i - off (i - day)
  decide (trans < 0) && decide (off (i + trans) + trans = off i)

/-- `astimezone()` on a naive value (CPython ≥ 3.12, `_local_timezone` with its gap detection): the offset in
    force at the instant `_mktime` finds — in a gap, at the *other* fold's instant — is subtracted from the wall
    reading.  Outside gaps this is `cpyDecode` itself. -/
def cpyAstimezone (off : Int → Int) (t : Int) (fold : Bool) : Int :=
  let ts := cpyDecode off t fold
  let ts2 := cpyDecode off t (!fold)
  let ts' := if ts2 ≠ ts ∧ (decide (ts2 > ts) == fold) then ts2 else ts
  t - off ts'

def TZ.cpython (off : Int → Int) : TZ := ⟨off, cpyFold off, cpyAstimezone off⟩

/-- A zone whose offset changes once, at the instant `T`, from `a` to `b`. -/
def oneOffset (T a b : Int) : Int → Int := fun i => if i < T then a else b

/-- Offset function of a transition table: `base` before the first transition, then `(instant, offset from there on)`
    in increasing order of instants. -/
def tableOffset (base : Int) : List (Int × Int) → Int → Int
  | [], _ => base
  | (t, o) :: rest, i => if i < t then base else tableOffset o rest i

def TZ.table (base : Int) (trs : List (Int × Int)) : TZ := TZ.cpython (tableOffset base trs)

/-- one hour, on the microsecond scale -/
abbrev hour : Int := 3600000000

/-- A concrete zone with one fall-back transition: −4 h until 2024-11-03 06:00:00 UTC, −5 h afterwards
    (New York's autumn 2024), with CPython's algorithms. -/
def fallBack : TZ := TZ.cpython (oneOffset 1730613600000000 (-4 * hour) (-5 * hour))

/-- A zone with a constant offset. -/
def TZ.fixed (o : Int) : TZ := ⟨fun _ => o, fun _ => false, fun w _ => w - o⟩

end Uberjob.Time
