import UberjobModel.Model.Engine
/-!
  The wake-up protocol of `queue.Queue` as the engine uses it.

  In the coarse model (`Model/Engine.lean`) a worker "takes any queued item" and the calling thread "returns from `join()` when
  `unfinished_tasks` is 0" — as if threads polled.  They do not: a worker that finds the queue empty SLEEPS in
  `not_empty.wait()` and runs again only after some `put` has called `not_empty.notify()` (which wakes ONE sleeper); the
  calling thread sleeps in `all_tasks_done.wait()` until a `task_done` that brings the count to 0 calls `notify_all()`.
  This model adds exactly that: who is asleep, who has been notified, and the rule that only `put` / `task_done` wake
  anybody.  Every `Queue` method body is one step (it runs under the queue's mutex); `wait()` releases the mutex, so going
  to sleep and resuming are separate steps.  `Lemmas/EngineQ.lean` proves that no wake-up is ever lost: unless the run has
  returned, some thread that is NOT asleep can take a step.

  Core Lean only.
-/
namespace Uberjob.EngineQ
open Uberjob.Engine

/-- The calling thread with respect to `all_tasks_done.wait()` inside `queue.join()`. -/
inductive CS where
  | awake | asleep | woken
deriving DecidableEq, Repr

structure StQ where
  c     : St
  sleep : List Nat      -- workers asleep in `not_empty.wait()` (inside `queue.get()`)
  woken : List Nat      -- workers that a `notify()` has woken and that have not yet re-acquired the mutex
  cs    : CS

inductive LabelQ where
  | base (l : Label)                      -- spawn, check, finOk, finFail, setStop, joined: no Queue method involved
  | getTake (w : Nat) (i : Item)          -- `get()`: the queue is not empty: take an item (first try, or after a wake-up)
  | getSleep (w : Nat)                    -- `get()`: the queue is empty: `not_empty.wait()`
  | put (l : Label) (v : Option Nat)      -- a step that may `put` (`release w y`, `putDone`); `v` = the sleeper `notify()` wakes
  | taskDone (w : Nat)                    -- `task_done()`, with `all_tasks_done.notify_all()` when the count reaches 0
  | joinTake                              -- `join()`: the count is 0: return
  | joinSleep                             -- `join()`: the count is not 0: `all_tasks_done.wait()`
  | interrupt                             -- KeyboardInterrupt in the calling thread while it is inside `join()`
deriving DecidableEq, Repr

def isBase : Label → Bool
  | .spawn => true
  | .check _ => true
  | .finOk _ => true
  | .finFail _ => true
  | .setStop => true
  | .joined => true
  | _ => false

def isPut : Label → Bool
  | .release _ _ => true
  | .putDone => true
  | _ => false

def initQ (g : Graph) : StQ := ⟨init g, [], [], .awake⟩

def stepQ? (g : Graph) (cfg : Cfg) (s : StQ) : LabelQ → Option StQ
  | .base l => if isBase l then (step? g cfg s.c l).map (fun c' => { s with c := c' }) else none
  | .getTake w i =>
    if w ∈ s.sleep then none
    else (step? g cfg s.c (.get w i)).map (fun c' => { s with c := c', woken := s.woken.erase w })
  | .getSleep w =>
    if s.c.ws[w]? = some W.idle ∧ w ∉ s.sleep ∧ s.c.queue = [] then
      some { s with sleep := w :: s.sleep, woken := s.woken.erase w }
    else none
  | .put l v =>
    if isPut l then
      match step? g cfg s.c l with
      | none => none
      | some c' =>
        if s.c.queue.length < c'.queue.length then
          -- an item was put: `not_empty.notify()` wakes one sleeper, if there is one
          match v with
          | some x => if x ∈ s.sleep then some { s with c := c', sleep := s.sleep.filter (· != x), woken := x :: s.woken } else none
          | none => if s.sleep = [] then some { s with c := c' } else none
        else
          match v with
          | none => some { s with c := c' }
          | some _ => none
    else none
  | .taskDone w =>
    (step? g cfg s.c (.taskDone w)).map (fun c' =>
      { s with c := c', cs := if c'.unfinished = 0 ∧ s.cs = .asleep then .woken else s.cs })
  | .joinTake =>
    if s.cs = .asleep then none
    else (step? g cfg s.c .joinReturn).map (fun c' => { s with c := c', cs := .awake })
  | .joinSleep =>
    if s.c.coord = .waiting ∧ s.cs ≠ .asleep ∧ s.c.unfinished ≠ 0 then some { s with cs := .asleep } else none
  | .interrupt => (step? g cfg s.c .interrupt).map (fun c' => { s with c := c', cs := .awake })

inductive ReachQ (g : Graph) (cfg : Cfg) : StQ → Prop where
  | init : ReachQ g cfg (initQ g)
  | step {s s' : StQ} (l : LabelQ) : ReachQ g cfg s → stepQ? g cfg s l = some s' → ReachQ g cfg s'

def runQ? (g : Graph) (cfg : Cfg) (s : StQ) : List LabelQ → Option StQ
  | [] => some s
  | l :: ls => match stepQ? g cfg s l with
    | some s' => runQ? g cfg s' ls
    | none => none

theorem reachQ_of_run {g : Graph} {cfg : Cfg} {s s' : StQ} {ls : List LabelQ}
    (h : ReachQ g cfg s) (hr : runQ? g cfg s ls = some s') : ReachQ g cfg s' := by
  induction ls generalizing s with
  | nil => simp [runQ?] at hr; exact hr ▸ h
  | cons l ls ih =>
    simp only [runQ?] at hr
    split at hr
    · next s1 h1 => exact ih (ReachQ.step l h h1) hr
    · exact absurd hr (by simp)

end Uberjob.EngineQ
