import UberjobModel.Model.Traceback
/-!
  Driver commands for the traceback model (stateless, one line in, one line out).

  frame   := name,path,line            (no `,` `;` `|` or newline inside name/path — the harness checks)
  frames  := frame;frame;…             (innermost first; `-` for none)
  chain   := frames[;TRUNC]            (`-` for `None`)

  tb capture <initial_depth|default> | <frames>        -> chain | `raise`
  tb site <site> | <g> | <api> | <frames of the caller> -> chain | `raise`
  tb render | <chain>                                   -> lines joined by `\n` (two characters)
  tb msg <fqn> | <chain>                                -> the same for str(CallError)
  tb calls call | <vals> | <vals>                       -> kinds of the symbolic calls created, `same` iff all carry the capture
  tb calls gather | <val>     tb calls output | <val>    tb calls unpack <n> | <val>
  tb calls source             tb calls store <isSource 0|1> <isStale 0|1>
  tb raises <isCall 0|1>                                -> CallError | AttributeError
  val := N | L | [ val … ]   (tokens separated by blanks)
-/
namespace Uberjob.Traceback
open Uberjob.Gen.Traceback

namespace Drv

def trim (s : String) : String := s.trimAscii.toString

def words (s : String) : List String := ((trim s).splitOn " ").filter (· ≠ "")

def parseFrame (s : String) : Option Frame :=
  match (trim s).splitOn "," with
  | [n, p, l] => (trim l).toNat?.map (fun l => ⟨n, p, l⟩)
  | _ => Option.none

def parseFrames (s : String) : Option (List Frame) :=
  let t := trim s
  if t == "-" || t == "" then some [] else (t.splitOn ";").mapM parseFrame

def parseChain (s : String) : Option Chain :=
  let t := trim s
  if t == "-" || t == "" then some .none else
  let parts := t.splitOn ";"
  if parts.getLast? == some "TRUNC" then
    (parts.dropLast.mapM parseFrame).map (fun fs => Chain.ofList fs .truncated)
  else (parts.mapM parseFrame).map (fun fs => Chain.ofList fs .none)

def showFrame (f : Frame) : String := s!"{f.name},{f.path},{f.line}"

def chainParts : Chain → List String
  | .none => []
  | .truncated => ["TRUNC"]
  | .frame f o => showFrame f :: chainParts o

def showChain (c : Chain) : String :=
  match chainParts c with
  | [] => "-"
  | ps => ";".intercalate ps

def showCapture : Option Chain → String
  | some c => showChain c
  | Option.none => "raise"

def parseSite : String → Option Site
  | "planCall" => some .planCall
  | "planGather" => some .planGather
  | "planUnpack" => some .planUnpack
  | "registryAdd" => some .registryAdd
  | "registrySource" => some .registrySource
  | "run" => some .run
  | _ => Option.none

/-- Stack-based reader for `val` token lists; returns the values read at top level. -/
def parseVals (toks : List String) : Option (List Val) :=
  let step (st : Option (List (List Val))) (t : String) : Option (List (List Val)) :=
    match st with
    | Option.none => Option.none
    | some stack =>
      match t, stack with
      | "[", _ => some ([] :: stack)
      | "]", top :: parent :: rest => some ((parent ++ [Val.cont top]) :: rest)
      | "N", top :: rest => some ((top ++ [Val.node]) :: rest)
      | "L", top :: rest => some ((top ++ [Val.leaf]) :: rest)
      | _, _ => Option.none
  match toks.foldl step (some [[]]) with
  | some [top] => some top
  | _ => Option.none

def showKind : Kind → String
  | .user => "user" | .gather => "gather" | .unpack => "unpack" | .getitem => "getitem"
  | .source => "source" | .storeRead => "read" | .storeWrite => "write"

def gD : Frame := ⟨"get_stack_frame", "traceback.py", 1⟩
def aD : Frame := ⟨"api", "uberjob.py", 1⟩
def uD : List Frame := [⟨"user", "user.py", 10⟩, ⟨"<module>", "user.py", 20⟩]
/-- a frame value that no capture produces -/
def freshD : Chain := .frame ⟨"fresh", "nowhere", 0⟩ .truncated

def showCalls (sf : Option Chain) (cs : Option (List SymCall)) : String :=
  match sf, cs with
  | some sf, some cs =>
    let same := if cs.all (fun c => c.frame == sf) then "same" else "differ"
    " ".intercalate (cs.map (fun c => showKind c.kind) ++ [same])
  | _, _ => "raise"

def cmdCalls (hd : List String) (secs : List String) : String :=
  match hd, secs with
  | ["call"], [a, k] =>
    match parseVals (words a), parseVals (words k) with
    | some a, some k => showCalls (captureAt .planCall gD aD uD) (planCall gD aD uD freshD a k)
    | _, _ => "bad-op"
  | ["gather"], [v] =>
    match parseVals (words v) with
    | some [v] => showCalls (captureAt .planGather gD aD uD) (planGather gD aD uD freshD v)
    | _ => "bad-op"
  | ["output"], [v] =>
    match parseVals (words v) with
    | some [v] => showCalls (captureAt .run gD aD uD) (runOutput gD aD uD freshD v)
    | _ => "bad-op"
  | ["unpack", n], [v] =>
    match n.toNat?, parseVals (words v) with
    | some n, some [v] => showCalls (captureAt .planUnpack gD aD uD) (planUnpack gD aD uD freshD v n)
    | _, _ => "bad-op"
  | ["source"], [] =>
    match registrySource gD aD uD freshD with
    | some (cs, e) =>
      if e.isSource && some e.frame == captureAt .registrySource gD aD uD then
        showCalls (captureAt .registrySource gD aD uD) (some cs)
      else "entry-differs"
    | Option.none => "raise"
  | ["store", src, stale], [] =>
    let e : RegEntry := ⟨src == "1", .frame ⟨"adder", "user.py", 33⟩ .none⟩
    showCalls (some e.frame) (some (storeCalls e freshD (stale == "1")))
  | _, _ => "bad-op"

def escapeLines (ls : List String) : String := "\\n".intercalate ls

end Drv

open Drv in
/-- Handler for every line whose first word is `tb`. -/
def drv (line : String) : String :=
  match (trim line).splitOn "|" with
  | [] => "bad-op"
  | hd :: secs =>
    match words hd with
    | ["tb", "capture", d] =>
      match secs with
      | [fs] =>
        match parseFrames fs with
        | some fs =>
          if d == "default" then showCapture (getStackFrame fs)
          else match d.toNat? with
            | some d => showCapture (getStackFrame fs d)
            | Option.none => "bad-op"
        | Option.none => "bad-op"
      | _ => "bad-op"
    | ["tb", "site", s] =>
      match parseSite s, secs with
      | some s, [g, a, u] =>
        match parseFrame g, parseFrame a, parseFrames u with
        | some g, some a, some u => showCapture (captureAt s g a u)
        | _, _, _ => "bad-op"
      | _, _ => "bad-op"
    | ["tb", "render"] =>
      match secs with
      | [c] => match parseChain c with
        | some c => escapeLines ((render c).splitOn "\n")
        | Option.none => "bad-op"
      | _ => "bad-op"
    | ["tb", "msg", fqn] =>
      match secs with
      | [c] => match parseChain c with
        | some c => escapeLines ((callErrorMessage fqn c).splitOn "\n")
        | Option.none => "bad-op"
      | _ => "bad-op"
    | "tb" :: "calls" :: rest => cmdCalls rest secs
    | ["tb", "raises", c] =>
      match runRaises ⟨c == "1", .none⟩ with
      | .callError _ => "CallError"
      | .attributeError => "AttributeError"
    | _ => "bad-op"

end Uberjob.Traceback
