import UberjobModel.Model.FileStore
import UberjobModel.Model.TextCodec
/-!
# The stores at the level of values: `read` after `write`, MountedStore, modified times

A store class = the shape read from the source (`Gen.FileStore.StoreSpec`) + a `Codec` describing its
serialiser/deserialiser on file content.  `write` goes through the staged-write model of Model/FileStore.lean
(here without injected faults: C12 is about completed writes; what a failing write leaves is C11).
-/
namespace Uberjob.Stores
open Uberjob.FileStore Uberjob.Gen.FileStore
open Uberjob.TextCodec (Str Encoding encodeText decodeText textWrite textRead posix)

abbrev Bytes := Uberjob.FileStore.Bytes

/-- serialiser / deserialiser of a store on file content -/
structure Codec (V : Type) where
  /-- the chunks handed to `outputfile.write`, in order (`none`: the serialiser raises — C11) -/
  enc : V → Option (List Bytes)
  /-- from the whole file content (`none`: the deserialiser raises) -/
  dec : Bytes → Option V

/-- reading back what the serialiser produced gives an equal value — the assumption made of `json`/`pickle` -/
def Codec.Roundtrip {V : Type} (c : Codec V) : Prop := ∀ v chunks, c.enc v = some chunks → c.dec chunks.flatten = some v

def chunkOps (chunks : List Bytes) : List BodyOp := chunks.map .write

section
variable {α : Type} [DecidableEq α] {V : Type}

/-- `Store(path).write(v)` on the file system, no injected fault -/
def writeValue (spec : StoreSpec) (c : Codec V) (valueIsNone : Bool) (stg tgt : α) (v : V) (fs : FS α) : R α :=
  match c.enc v with
  | some chunks => storeWrite Cfg.gen noFaults spec valueIsNone stg tgt (chunkOps chunks) fs
  | none => storeWrite Cfg.gen noFaults spec valueIsNone stg tgt [.fail .exception] fs

/-- `Store(path).read()`: opens `path` (only), hands the whole content to the deserialiser -/
def readValue (c : Codec V) (fs : FS α) (tgt : α) : Option V := (fs.read tgt).bind c.dec

end

/-- BinaryFileStore: `outputfile.write(value)` / `inputfile.read()` in binary mode -/
def binaryCodec : Codec Bytes := ⟨fun b => some [b], some⟩

/-- TextFileStore(path, encoding=e): one `write` of the string; newline modes as in the source -/
def textCodec (e : Encoding) (linesep : Str) (wnl rnl : Gen.TextCodec.Newline) : Codec Str :=
  ⟨fun s => (textWrite e linesep wnl s).map ([·]), textRead e rnl⟩

/-- serialiser / deserialiser on TEXT (json): chunks of characters out, whole text in -/
structure TextSer (V : Type) where
  enc : V → Option (List Str)
  dec : Str → Option V

def TextSer.Roundtrip {V : Type} (c : TextSer V) : Prop := ∀ v chunks, c.enc v = some chunks → c.dec chunks.flatten = some v

/-- the serialiser never emits a carriage return (json.dump escapes it) -/
def TextSer.NoCR {V : Type} (c : TextSer V) : Prop := ∀ v chunks, c.enc v = some chunks → TextCodec.CR ∉ chunks.flatten

/-- JsonFileStore(path, encoding=e): the text serialiser through a text-mode file with the newline modes of the
    source.  (The chunk structure only matters for fault points — C11; the bytes on disk are those of the whole text.) -/
def jsonCodec {V : Type} (ser : TextSer V) (e : Encoding) (linesep : Str) (wnl rnl : Gen.TextCodec.Newline) : Codec V :=
  ⟨fun v => (ser.enc v).bind (fun chunks => (textWrite e linesep wnl chunks.flatten).map ([·])),
   fun b => (textRead e rnl b).bind ser.dec⟩

/-- TouchFileStore.read: `None` after checking that the file exists and is empty -/
def touchCodec : Codec Unit := ⟨fun _ => some [], fun b => if b.isEmpty then some () else none⟩

/-! ## MountedStore -/

/-- the two abstract methods of a MountedStore subclass, on the content of the local file -/
structure Remote (ρ : Type) where
  /-- `copy_from_local(local_path)`: store the local file's content remotely -/
  copyFromLocal : Bytes → ρ → ρ
  /-- `copy_to_local(local_path)`: the content it writes to the local path (`none`: it raises) -/
  copyToLocal : ρ → Option Bytes

def Remote.Faithful {ρ : Type} (m : Remote ρ) : Prop := ∀ b r, m.copyToLocal (m.copyFromLocal b r) = some b

section
variable {α : Type} [DecidableEq α] {V ρ : Type}

/-- a fresh `tempfile.TemporaryDirectory()` -/
def freshDir (clock : Nat) : FS α := ⟨[], clock⟩

/-- `MountedStore.write(value)`: `create_store(local_path).write(value); copy_from_local(local_path)` -/
def mountedWrite (m : Remote ρ) (spec : StoreSpec) (c : Codec V) (vn : Bool) (stg tgt : α) (clock : Nat) (v : V) (r : ρ) : Option ρ :=
  let res := writeValue spec c vn stg tgt v (freshDir clock)
  if res.out = .ok then (res.fs.read tgt).map (fun b => m.copyFromLocal b r) else none

/-- `MountedStore.read()`: `copy_to_local(local_path); return create_store(local_path).read()` -/
def mountedRead (m : Remote ρ) (c : Codec V) (tgt : α) (clock : Nat) (r : ρ) : Option V :=
  (m.copyToLocal r).bind (fun b => readValue c ((freshDir clock : FS α).put tgt ⟨b, clock⟩) tgt)

end

/-! ## modified times -/

/-- order on `get_modified_time()` results: "nothing stored" is below everything -/
def mtimeLE : Option Nat → Option Nat → Prop
  | none, _ => True
  | some _, none => False
  | some a, some b => a ≤ b

/-- one write attempt: the store shape, whether the value is None, the serialiser's block, the faults -/
structure Attempt where
  spec : StoreSpec
  valueIsNone : Bool
  ops : List BodyOp
  sched : Sched

def runAttempts {α : Type} [DecidableEq α] (cfg : Cfg) (stg tgt : α) : List Attempt → FS α → FS α
  | [], fs => fs
  | a :: r, fs => runAttempts cfg stg tgt r (storeWrite cfg a.sched a.spec a.valueIsNone stg tgt a.ops fs).fs

end Uberjob.Stores
