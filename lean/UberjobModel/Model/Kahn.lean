import UberjobModel.Model.Engine
/-!
  `topological_sort` / `assert_acyclic` of src/uberjob/_util/networkx_util.py (Kahn's algorithm with a
  Python list used as a stack).
-/
namespace Uberjob.Kahn
open Uberjob.Engine (Graph)

structure KSt where
  q   : List Nat        -- the Python list `q`; head = the element `q.pop()` returns
  cnt : Nat → Nat       -- pred_count_mapping (0 where the key is absent)
  out : List Nat        -- nodes yielded so far

/-- `pred_count_mapping[successor] -= 1; if pred_count_mapping[successor] == 0: q.append(successor)` -/
def relaxOne (st : KSt) (y : Nat) : KSt :=
  let c := st.cnt y - 1
  { st with cnt := fun z => if z = y then c else st.cnt z, q := if c = 0 then y :: st.q else st.q }

def relax (st : KSt) (ys : List Nat) : KSt := ys.foldl relaxOne st

def loop (g : Graph) : Nat → KSt → KSt
  | 0, st => st
  | f + 1, st =>
    match st.q with
    | [] => st
    | x :: q => loop g f (relax { st with q := q, out := st.out ++ [x] } (g.succs x))

def start (g : Graph) : KSt :=
  { q := (g.nodes.filter (fun x => g.predCount x == 0)).reverse, cnt := g.predCount, out := [] }

/-- `some order` = the generator ran to completion; `none` = `HasACycle` is raised. -/
def kahn (g : Graph) : Option (List Nat) :=
  let st := loop g (g.nodes.length + 1) (start g)
  if st.q.isEmpty && g.nodes.all (fun y => st.cnt y == 0) then some st.out else none

end Uberjob.Kahn
