import UberjobModel.Model.TracebackDrv
import UberjobModel.Model.RetryDrv
/-!
  One entry point for the driver commands of the small independent models (`tb …` for C19, `retry …` for C10).
-/
namespace Uberjob.Small

def drv (line : String) : String :=
  match (line.trimAscii.toString.splitOn " ").filter (· ≠ "") with
  | "tb" :: _ => Uberjob.Traceback.drv line
  | "retry" :: _ => Uberjob.Retry.drv line
  | _ => "bad-op"

end Uberjob.Small
