import UberjobModel.Model.Phys
/-!
  Driver commands for the physical-plan model (stateless):

  `phys <stage> | <nodes> | <edges> | <registry> | <stale> | <out>`
     nodes     `i:c` (Call) / `i:l` (Literal) in `graph.nodes()` order
     edges     `u>v:d` / `u>v:p<k>` / `u>v:k<k>=<name>`
     registry  `i:S` / `i:N` in mapping order
     stale     ids; out: an id or `-`
     stage     `build` (closed form of the loop of plan_with_value_stores) | `loop` (the transcribed loop itself) |
               `loopfinal` (prune_plan applied to `loop`) | `anc` (after remove_nodes_from) |
               `final` (what dry_run returns) | `engine` (after run_physical's prune_source_literals) |
               `plus` (C14: the dry-run plan with the all-nodes gather, pruned again w.r.t. that gather)
  reply: `nodes … | edges … | out …`
-/
namespace Uberjob.Phys

def toks (s : String) : List String := (s.splitOn " ").map (fun t => t.trimAscii.toString) |>.filter (· ≠ "")

def parseKey (t : String) : Option Key :=
  if t == "d" then some .dep
  else if t.startsWith "p" then (t.drop 1).toString.toNat?.map .pos
  else if t.startsWith "k" then
    match (t.drop 1).toString.splitOn "=" with
    | [k, name] => k.toNat?.map (fun k => .kw k name)
    | _ => none
  else none

def parseLEdge (t : String) : Option LEdge :=
  match t.splitOn ":" with
  | [uv, k] =>
    match uv.splitOn ">" with
    | [u, v] => do some ⟨← u.toNat?, ← v.toNat?, ← parseKey k⟩
    | _ => none
  | _ => none

def parseInput (ns es rs st o : String) : Option Input := do
  let nodes ← (toks ns).mapM (fun t => match t.splitOn ":" with
    | [i, "c"] => i.toNat?.map (fun i => (i, false))
    | [i, "l"] => i.toNat?.map (fun i => (i, true))
    | _ => none)
  let edges ← (toks es).mapM parseLEdge
  let reg ← (toks rs).mapM (fun t => match t.splitOn ":" with
    | [i, "S"] => i.toNat?.map (fun i => (i, true))
    | [i, "N"] => i.toNat?.map (fun i => (i, false))
    | _ => none)
  let stale ← (toks st).mapM (fun t => t.toNat?)
  let out ← match toks o with
    | ["-"] => some none
    | [t] => t.toNat?.map some
    | _ => none
  some ⟨nodes.map (·.1), (nodes.filter (·.2)).map (·.1), edges, reg, stale, out⟩

def optStr : Option PN → String
  | some a => a.str
  | none => "sink"

def plusStr (G : PG (Option PN)) : String :=
  "nodes " ++ " ".intercalate (G.nodes.map optStr) ++ " | edges "
    ++ " ".intercalate (sortStrs (G.edges.map (fun e => s!"{optStr e.src}>{optStr e.dst}:{e.key.str}")))
    ++ " | out sink"

def optLit (P : Input) : Option PN → Bool
  | some a => a.isLit P
  | none => false

def drv (line : String) : String :=
  match line.splitOn "|" with
  | [hd, ns, es, rs, st, o] =>
    match toks hd, parseInput ns es rs st o with
    | ["phys", stage], some P =>
      let out := physOut P
      if stage == "build" then (physBuild P).str out
      else if stage == "loop" then (planWithValueStores P).str out
      else if stage == "loopfinal" then
        (prunePlan (PN.isLit P) (fuelOf P) (required P) out (planWithValueStores P)).str out
      else if stage == "anc" then (pruneAnc (fuelOf P) (required P ++ out.toList) (physBuild P)).str out
      else if stage == "final" then (physFinal P).str out
      else if stage == "engine" then (physEngine P).str out
      else if stage == "plus" then
        let G := addSink (physFinal P)
        plusStr (prunePlan (optLit P) (G.nodes.length + 1) [] (some none) G)
      else "bad-op"
    | _, _ => "bad-op"
  | _ => "bad-op"

end Uberjob.Phys
