import UberjobModel.Model.Plan
/-!
  Driver commands for the Plan model (C02).  One stateless request per line:

  * `c02 prog <stmt>* (out <pv> | outnone)`  — build a plan with the model's `lit/addCall/gather/unpack/addDep`,
    gather the output, evaluate.  Reply: `ok res=<val> rec=<j>:<val>|… nodes=<n> edges=<e>`.
      stmt ::= lit <pv> | call <f> <npos> <nkw> <pv>*npos (<name> <pv>)*nkw | gather <pv> | unpack <n> <pv> | dep <a> <b>
      pv   ::= a<id> | i<k> | n<var> | L<id>:<cnt> pv* | T<id>:<cnt> pv* | S<id>:<cnt> pv* | D<id>:<cnt> (pv pv)*
             | O<id>:<0|1>:<cnt> pv*
    `n<var>` refers to the var-th node returned by the statements so far (unpack returns `n` of them).
  * `c02 args <c> <src>:<dst>:(d|p<i>|k<i>:<name>)*`  — `getArgumentNodes` on an explicit edge list, in that order.
  * `c02 unpack <length> <len>`  — the generated `_builtins.unpack` on an iterable of `len` items.
-/
namespace Uberjob.Plan
open Uberjob.Gen.Plan (unpackTake unpackOk)

namespace Drv

def sortStrs (l : List String) : List String := (l.toArray.qsort (· < ·)).toList

def tagStr : Option Nat → String
  | some k => s!"#{k}"
  | none => "~"

def varOf (vars : Array Nat) (n : Nat) : String :=
  match vars.toList.idxOf? n with
  | some j => s!"N{j}"
  | none => "N?"

partial def showVal (vars : Array Nat) : Val → String
  | .atom k => s!"a{k}"
  | .int k => s!"i{k}"
  | .nodeObj n => varOf vars n
  | .opaque id _ _ => s!"o#{id}"
  | .list t xs => s!"L{tagStr t}[" ++ ",".intercalate (xs.map (showVal vars)) ++ "]"
  | .tuple t xs => if xs.isEmpty then "T()" else s!"T{tagStr t}(" ++ ",".intercalate (xs.map (showVal vars)) ++ ")"
  | .set t xs => s!"S{tagStr t}" ++ "{" ++ ",".intercalate (sortStrs (xs.map (showVal vars))) ++ "}"
  | .dict t kvs =>
    s!"D{tagStr t}" ++ "{" ++ ",".intercalate (kvs.map (fun p => showVal vars p.1 ++ ":" ++ showVal vars p.2)) ++ "}"
  | .app f as ks =>
    s!"f{f}(" ++ ",".intercalate (as.map (showVal vars)) ++ ";"
      ++ ",".intercalate (ks.map (fun p => p.1 ++ "=" ++ showVal vars p.2)) ++ ")"
  | .fail => "FAIL"

def idCnt (body : String) : Option (Nat × Nat) :=
  match body.splitOn ":" with
  | [id, cnt] => do some ((← id.toNat?), (← cnt.toNat?))
  | _ => none

def pairUp : List PV → List (PV × PV)
  | k :: v :: rest => (k, v) :: pairUp rest
  | _ => []

mutual
partial def parsePV (vars : Array Nat) : List String → Option (PV × List String)
  | [] => none
  | t :: rest =>
    let body := (t.drop 1).toString
    match t.front with
    | 'a' => body.toNat?.map (fun k => (PV.atom k, rest))
    | 'i' => body.toNat?.map (fun k => (PV.int k, rest))
    | 'n' => do let j ← body.toNat?; let n ← vars[j]?; some (PV.node n, rest)
    | 'L' => do let (id, cnt) ← idCnt body; let (xs, r) ← parsePVs vars cnt rest; some (PV.list id xs, r)
    | 'T' => do let (id, cnt) ← idCnt body; let (xs, r) ← parsePVs vars cnt rest; some (PV.tuple id xs, r)
    | 'S' => do let (id, cnt) ← idCnt body; let (xs, r) ← parsePVs vars cnt rest; some (PV.set id xs, r)
    | 'D' => do
      let (id, cnt) ← idCnt body
      let (xs, r) ← parsePVs vars (2 * cnt) rest
      some (PV.dict id (pairUp xs), r)
    | 'O' =>
      match body.splitOn ":" with
      | [id, it, cnt] => do
        let (xs, r) ← parsePVs vars (← cnt.toNat?) rest
        some (PV.opaque (← id.toNat?) (it == "1") xs, r)
      | _ => none
    | _ => none
partial def parsePVs (vars : Array Nat) : Nat → List String → Option (List PV × List String)
  | 0, ts => some ([], ts)
  | k + 1, ts => do
    let (x, r) ← parsePV vars ts
    let (xs, r') ← parsePVs vars k r
    some (x :: xs, r')
end

partial def parseKw (vars : Array Nat) : Nat → List String → Option (List (String × PV) × List String)
  | 0, ts => some ([], ts)
  | k + 1, name :: ts => do
    let (x, r) ← parsePV vars ts
    let (xs, r') ← parseKw vars k r
    some ((name, x) :: xs, r')
  | _, _ => none

structure PSt where
  st : PlanSt := {}
  vars : Array Nat := #[]
  calls : List (Nat × Nat) := []      -- (var index, node) of the user calls

def report (p : PSt) (out : Option Nat) (stBefore : PlanSt) : String :=
  let st := p.st
  let tbl := evalAll st st.nodes.length
  let need := match out with | some o => needed st o | none => []
  let res := match out with
    | some o => showVal p.vars (runResult st o)
    | none => "None"
  let recs := p.calls.filter (fun c => need.contains c.2)
  let rec_ := "|".intercalate (recs.map (fun c => s!"{c.1}:" ++ showVal p.vars (tbl.getD c.2 .fail)))
  s!"ok res={res} rec={rec_} nodes={stBefore.nodes.length} edges={stBefore.edges.length}"

partial def runProg (p : PSt) : List String → String
  | [] => "bad-op: no out"
  | "outnone" :: _ => report p none p.st
  | "out" :: ts =>
    match parsePV p.vars ts with
    | some (v, _) =>
      let (st1, o) := gather p.st v
      report { p with st := st1 } (some o) p.st
    | none => "bad-op: out"
  | "lit" :: ts =>
    match parsePV p.vars ts with
    | some (v, r) => let (st1, n) := lit p.st v; runProg { p with st := st1, vars := p.vars.push n } r
    | none => "bad-op: lit"
  | "gather" :: ts =>
    match parsePV p.vars ts with
    | some (v, r) => let (st1, n) := gather p.st v; runProg { p with st := st1, vars := p.vars.push n } r
    | none => "bad-op: gather"
  | "call" :: f :: np :: nk :: ts =>
    match f.toNat?, np.toNat?, nk.toNat? with
    | some f, some np, some nk =>
      match parsePVs p.vars np ts with
      | some (as, r) =>
        match parseKw p.vars nk r with
        | some (ks, r') =>
          let (st1, n) := addCall p.st (.user f) as ks
          runProg { st := st1, vars := p.vars.push n, calls := p.calls ++ [(p.vars.size, n)] } r'
        | none => "bad-op: call kwargs"
      | none => "bad-op: call args"
    | _, _, _ => "bad-op: call header"
  | "unpack" :: n :: ts =>
    match n.toNat?, parsePV p.vars ts with
    | some n, some (v, r) =>
      let (st1, ns) := unpack p.st v n
      runProg { p with st := st1, vars := p.vars ++ ns.toArray } r
    | _, _ => "bad-op: unpack"
  | "dep" :: a :: b :: ts =>
    match a.toNat?.bind (p.vars[·]?), b.toNat?.bind (p.vars[·]?) with
    | some a, some b => runProg { p with st := addDep p.st a b } ts
    | _, _ => "bad-op: dep"
  | t :: _ => "bad-op: " ++ t

def parseEdge (t : String) : Option Edge :=
  match t.splitOn ":" with
  | [s, d, "d"] => do some ⟨← s.toNat?, ← d.toNat?, .dep⟩
  | [s, d, k] =>
    if k.front == 'p' then do some ⟨← s.toNat?, ← d.toNat?, .pos (← (k.drop 1).toString.toNat?)⟩ else none
  | [s, d, k, name] =>
    if k.front == 'k' then do some ⟨← s.toNat?, ← d.toNat?, .kw name (← (k.drop 1).toString.toNat?)⟩ else none
  | _ => none

def cmdArgs : List String → String
  | c :: es =>
    match c.toNat?, es.mapM parseEdge with
    | some c, some es =>
      match getArgumentNodes es c with
      | none => "raise"
      | some (as, kws) =>
        "args=" ++ ",".intercalate (as.map toString) ++ " kws=" ++ ",".intercalate (kws.map (fun p => s!"{p.1}:{p.2}"))
    | _, _ => "bad-op"
  | _ => "bad-op"

def cmdUnpack : List String → String
  | [n, len] =>
    match n.toNat?, len.toNat? with
    | some n, some len =>
      let t := min len (unpackTake n)
      if unpackOk n t then s!"ok {t}" else "raise"
    | _, _ => "bad-op"
  | _ => "bad-op"

end Drv

def drv (line : String) : String :=
  match (line.trimAscii.toString.splitOn " ").filter (· ≠ "") with
  | "c02" :: "prog" :: ts => Drv.runProg {} ts
  | "c02" :: "args" :: ts => Drv.cmdArgs ts
  | "c02" :: "unpack" :: ts => Drv.cmdUnpack ts
  | _ => "bad-op"

end Uberjob.Plan
