import UberjobModel.Model.FileStore
/-!
  Driver commands of the file-store model (T2 of C11/C12; stateless, one line each):

  `fs run <cfg> <store> <vn> | <T> ; <S> | <body> | <sched>`
      cfg   `gen` (current source) or four bits `replaceInsideTry catchesBase removes reraises`, e.g. `0111`
      store a class name of `Gen.FileStore.stores`, or `helper:w` / `helper:x` (`staged_write` with / without "w")
      vn    `1` the value is None, `0` it is not
      T, S  initial target / staging file: `-` absent, `e` empty, or `b,b,b`
      body  `w:b,b,b` (one `write` call; `w:` = empty chunk), `f:o|e|b` (the block raises) and `x:o|e|b` (a `write`
            call that raises by itself without effect), space separated
      sched `k:r:o|e|b:p` (raise at op k after partial effect p) and `k:d:p` (die), space separated
    reply `out=… trace=… target=-|len:hash tchanged=0|1 ls=name,name other=0|1`

  `fs seq <cfg> | <T> ; <S> | <store> <vn> / <body> / <sched> || <store> <vn> / <body> / <sched> || …`
    reply one `out:mtime|-:len:hash|-` per step (the target after the step).
-/
namespace Uberjob.FileStoreDrv
open Uberjob.FileStore Uberjob.Gen.FileStore

def words (s : String) : List String := (s.splitOn " ").filter (· ≠ "")

def parseBytes (t : String) : Bytes := (t.splitOn ",").filterMap (fun x => x.trimAscii.toString.toNat?)

def parseFile (t : String) (mtime : Nat) : Option File :=
  let t := t.trimAscii.toString
  if t == "-" then none else if t == "e" then some ⟨[], mtime⟩ else some ⟨parseBytes t, mtime⟩

def parseExc (t : String) : Exc := if t == "o" then .osError else if t == "b" then .baseOnly else .exception

def showExc : Exc → String
  | .osError => "o" | .exception => "e" | .baseOnly => "b"

def parseBody (s : String) : List BodyOp :=
  (words s).filterMap (fun t =>
    if t.startsWith "w:" then some (.write (parseBytes (t.drop 2).toString))
    else if t.startsWith "f:" then some (.fail (parseExc (t.drop 2).toString))
    else if t.startsWith "x:" then some (.failingWrite (parseExc (t.drop 2).toString))
    else none)

def parseSched (s : String) : Sched :=
  let entries : List (Nat × Fault) := (words s).filterMap (fun t =>
    match t.splitOn ":" with
    | [k, "r", e, p] => do some ((← k.toNat?), Fault.raise (parseExc e) (← p.toNat?))
    | [k, "d", p] => do some ((← k.toNat?), Fault.die (← p.toNat?))
    | _ => none)
  fun i => match entries.find? (·.1 == i) with
    | some e => e.2
    | none => .none

def parseCfg (t : String) : Cfg :=
  match t.toList with
  | [a, b, c, d] => ⟨a == '1', b == '1', c == '1', d == '1'⟩
  | _ => Cfg.gen

def hashBytes (b : Bytes) : Nat := b.foldl (fun h x => (h * 257 + x + 1) % 1000000007) 7

def showContent : Option File → String
  | none => "-"
  | some f => s!"{f.content.length}:{hashBytes f.content}"

def showOut : Outcome → String
  | .ok => "ok" | .raised e => "raised:" ++ showExc e | .died => "died"

def showOp : OpName → String
  | .open => "open" | .write => "write" | .close => "close" | .replace => "replace" | .remove => "remove"

def sortStrs (l : List String) : List String := (l.toArray.qsort (· < ·)).toList

def tgt : String := "t"
def stg : String := tgt ++ stagingSuffix
def other : String := "o"

def initFS (t s : Option File) : FS String :=
  let fs : FS String := ⟨[(other, ⟨[1], 3⟩)], 10⟩
  let fs := match t with | some f => fs.put tgt f | none => fs
  match s with | some f => fs.put stg f | none => fs

/-- run one write of `store` (`none`: unknown name) -/
def runStore (cfg : Cfg) (store : String) (vn : Bool) (ops : List BodyOp) (sched : Sched) (fs : FS String) : Option (R String) :=
  if store == "helper:w" then some (stagedWrite cfg sched true stg tgt ops fs)
  else if store == "helper:x" then some (stagedWrite cfg sched false stg tgt ops fs)
  else (stores.find? (·.className == store)).map (fun spec => storeWrite cfg sched spec vn stg tgt ops fs)

def parseInit (s : String) : Option (FS String) :=
  match s.splitOn ";" with
  | [t, st] => some (initFS (parseFile t 1) (parseFile st 2))
  | _ => none

def cmdRun (rest : String) : String :=
  match rest.splitOn "|" with
  | [hd, ini, body, sch] =>
    match words hd, parseInit ini with
    | [cfg, store, vn], some fs =>
      match runStore (parseCfg cfg) store (vn == "1") (parseBody body) (parseSched sch) fs with
      | none => "bad-store"
      | some r =>
        let before := fs.get tgt
        let after := r.fs.get tgt
        let changed := before.map (·.mtime) != after.map (·.mtime)
        let ls := ",".intercalate (sortStrs (r.fs.files.map (·.1)))
        let tr := ",".intercalate (r.trace.map showOp)
        let oth := r.fs.get other == some ⟨[1], 3⟩
        s!"out={showOut r.out} trace={tr} target={showContent after} tchanged={if changed then 1 else 0} ls={ls} other={if oth then 1 else 0}"
    | _, _ => "bad-op"
  | _ => "bad-op"

def cmdSeq (rest : String) : String :=
  match rest.splitOn "|" with
  | hd :: ini :: steps =>
    match parseInit ini with
    | none => "bad-op"
    | some fs0 =>
      let cfg := parseCfg hd.trimAscii.toString
      -- the steps were separated by "||": every second piece is empty
      let steps := steps.filter (fun s => s.trimAscii.toString ≠ "")
      let (_, outs) := steps.foldl (fun (acc : FS String × List String) step =>
        let (fs, outs) := acc
        match step.splitOn "/" with
        | [hd, body, sch] =>
          match words hd with
          | [store, vn] =>
            match runStore cfg store (vn == "1") (parseBody body) (parseSched sch) fs with
            | some r =>
              let f := r.fs.get tgt
              let mt := match f with | some f => toString f.mtime | none => "-"
              (r.fs, outs ++ [s!"{showOut r.out}:{mt}:{showContent f}"])
            | none => (fs, outs ++ ["bad-store"])
          | _ => (fs, outs ++ ["bad-op"])
        | _ => (fs, outs ++ ["bad-op"])) (fs0, [])
      " ".intercalate outs
  | _ => "bad-op"

end Uberjob.FileStoreDrv

namespace Uberjob.FileStore

/-- entry point for Driver.lean: `fs run …` / `fs seq …` -/
def drv (line : String) : String :=
  let line := line.trimAscii.toString
  if line.startsWith "fs run " then Uberjob.FileStoreDrv.cmdRun (line.drop 7).toString
  else if line.startsWith "fs seq " then Uberjob.FileStoreDrv.cmdSeq (line.drop 7).toString
  else "bad-op"

end Uberjob.FileStore
