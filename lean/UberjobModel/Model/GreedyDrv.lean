import UberjobModel.Model.Greedy
/-!
  Driver command of the default scheduler's priorities (T2 of C07; stateless):

  `greedy <n> | v:p,p,p v:p … | u>v u>v … | s s s …`   nodes `0 … n-1`; `graph.pred[v]` in iteration order for every `v` with
      predecessors; the argument edges; the pseudo-sinks in the order the library's condensation puts them.
    reply `ok order=<nodes in priority order> sinks=<the nodes without an outgoing argument edge, ascending>` or `none`
-/
namespace Uberjob.Greedy

def parsePreds (s : String) : List (Nat × List Nat) :=
  ((s.splitOn " ").filter (· ≠ "")).filterMap (fun t =>
    match t.splitOn ":" with
    | [v, ps] => v.toNat?.map (fun v => (v, (ps.splitOn ",").filterMap String.toNat?))
    | _ => none)

def parseArgs (s : String) : List (Nat × Nat) :=
  ((s.splitOn " ").filter (· ≠ "")).filterMap (fun t =>
    match t.splitOn ">" with
    | [u, v] => match u.toNat?, v.toNat? with
      | some u, some v => some (u, v)
      | _, _ => none
    | _ => none)

def drv (line : String) : String :=
  match (line.trimAscii.toString.splitOn "|").map (fun s => s.trimAscii.toString) with
  | [hd, ps, as, ss] =>
    match (hd.splitOn " ").filter (· ≠ "") with
    | ["greedy", n] =>
      match n.toNat? with
      | some n =>
        let pl := parsePreds ps
        let al := parseArgs as
        let g : Gr := ⟨n, fun v => ((pl.find? (fun e => e.1 == v)).map (·.2)).getD [], fun u v => al.contains (u, v)⟩
        let sinks := (ss.splitOn " ").filterMap String.toNat?
        match order g sinks with
        | some o => "ok order=" ++ " ".intercalate (o.map toString) ++ " sinks=" ++
            " ".intercalate (((List.range n).filter g.isSink).map toString)
        | none => "none"
      | none => "bad-op"
    | _ => "bad-op"
  | _ => "bad-op"

end Uberjob.Greedy
