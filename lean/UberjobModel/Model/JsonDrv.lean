import UberjobModel.Model.Json
import UberjobModel.Model.TextCodecDrv
/-!
  Driver commands of the JSON model (T2 of C12; stateless).  Values travel as prefix terms, tokens separated by blanks:
  `n` (None)  `t` `f`  `i<int>`  `F<float text>`  `S k cp…cp`  `A k v…v`  `O k (S… v)…`

  `json enc <layout> <ascii> | term`   `<layout>` = `gen` (what JsonFileStore passes to json.dump in the current source),
      `indent:<n>` or `compact`; `<ascii>` = `gen` | `1` | `0`.  Reply `ok <code points of json.dumps(value, …)>`
      (`#<len>:<hash>` beyond 4096 code points)
  `json dec | cp cp cp …`   reply `ok <term>` (the value `json.loads` returns), `err` (JSONDecodeError) or `float`
      (float syntax met: outside the model)
-/
namespace Uberjob.JsonDrv
open Uberjob.Json

def readStr (k : Nat) (ts : List String) : Option (Str × List String) :=
  if ts.length < k then none else
    let cps := (ts.take k).filterMap String.toNat?
    if cps.length = k then some (cps, ts.drop k) else none

mutual
def readV : Nat → List String → Option (JV × List String)
  | 0, _ => none
  | _ + 1, [] => none
  | f + 1, t :: ts =>
    if t == "n" then some (.null, ts) else if t == "t" then some (.bool true, ts) else if t == "f" then some (.bool false, ts)
    else if t.startsWith "i" then (t.drop 1).toString.toInt?.map (fun n => (.int n, ts))
    else if t.startsWith "F" then
      -- a float, as its text: scanned by the model's own number scanner, which must take all of it as a float
      let cps := ((t.drop 1).toString.toList.map Char.toNat)
      match (match cps with | 45 :: r => parseNumber true r | r => parseNumber false r) with
      | .ok (.float f, []) => some (.float f, ts)
      | _ => none
    else if t == "S" then
      match ts with
      | k :: ts => (k.toNat?.bind (fun k => readStr k ts)).map (fun (s, r) => (.str s, r))
      | [] => none
    else if t == "A" then
      match ts with
      | k :: ts => (k.toNat?.bind (fun k => readVs f k ts)).map (fun (xs, r) => (.arr xs, r))
      | [] => none
    else if t == "O" then
      match ts with
      | k :: ts => (k.toNat?.bind (fun k => readMs f k ts)).map (fun (ms, r) => (.obj ms, r))
      | [] => none
    else none
def readVs : Nat → Nat → List String → Option (JVs × List String)
  | 0, _, _ => none
  | _ + 1, 0, ts => some (.nil, ts)
  | f + 1, k + 1, ts =>
    match readV f ts with
    | some (v, r) => (readVs f k r).map (fun (vs, r') => (.cons v vs, r'))
    | none => none
def readMs : Nat → Nat → List String → Option (JMs × List String)
  | 0, _, _ => none
  | _ + 1, 0, ts => some (.nil, ts)
  | f + 1, k + 1, ts =>
    match ts with
    | "S" :: n :: ts =>
      match n.toNat?.bind (fun n => readStr n ts) with
      | some (key, r) =>
        match readV f r with
        | some (v, r1) => (readMs f k r1).map (fun (ms, r2) => (.cons key v ms, r2))
        | none => none
      | none => none
    | _ => none
end

def showS (s : Str) : String := String.intercalate " " (("S" :: toString s.length :: s.map toString))

mutual
def showV : JV → List String
  | .null => ["n"]
  | .bool true => ["t"]
  | .bool false => ["f"]
  | .int n => ["i" ++ toString n]
  | .float f => ["F" ++ String.ofList (f.text.map Char.ofNat)]
  | .str s => [showS s]
  | .arr xs => "A" :: toString (lenVs xs) :: showVs xs
  | .obj ms => "O" :: toString (lenMs ms) :: showMs ms
def showVs : JVs → List String
  | .nil => []
  | .cons v vs => showV v ++ showVs vs
def showMs : JMs → List String
  | .nil => []
  | .cons k v ms => showS k :: (showV v ++ showMs ms)
def lenVs : JVs → Nat
  | .nil => 0
  | .cons _ vs => lenVs vs + 1
def lenMs : JMs → Nat
  | .nil => 0
  | .cons _ _ ms => lenMs ms + 1
end

def parseLayout (t : String) : Option Layout :=
  if t == "gen" then some (match Uberjob.Gen.TextCodec.jsonDumpIndent with | some n => .indent n | none => .compact)
  else if t == "compact" then some .compact
  else if t.startsWith "indent:" then (t.drop 7).toString.toNat?.map Layout.indent
  else none

def parseAscii (t : String) : Option Bool :=
  if t == "gen" then some Uberjob.Gen.TextCodec.jsonDumpEnsureAscii else if t == "1" then some true else if t == "0" then some false else none

def cmdEnc (rest : String) : String :=
  match rest.splitOn "|" with
  | [hd, term] =>
    match (hd.splitOn " ").filter (· ≠ "") with
    | [lay, asc] =>
      match parseLayout lay, parseAscii asc with
      | some lay, some asc =>
        let ts := (term.splitOn " ").filter (· ≠ "")
        match readV (ts.length + 1) ts with
        | some (v, []) => "ok " ++ Uberjob.TextCodecDrv.showStr (render ⟨lay, asc⟩ 0 v)
        | _ => "bad-op"
      | _, _ => "bad-op"
    | _ => "bad-op"
  | _ => "bad-op"

def cmdDec (rest : String) : String :=
  match rest.splitOn "|" with
  | [_, cps] =>
    match parse (Uberjob.TextCodecDrv.nats cps) with
    | .ok v => "ok " ++ String.intercalate " " (showV v)
    | .error .float => "float"
    | .error _ => "err"
  | _ => "bad-op"

end Uberjob.JsonDrv

namespace Uberjob.Json
def drv (line : String) : String :=
  let line := line.trimAscii.toString
  if line.startsWith "json enc " then Uberjob.JsonDrv.cmdEnc (line.drop 9).toString
  else if line.startsWith "json dec" then Uberjob.JsonDrv.cmdDec (line.drop 8).toString
  else "bad-op"
end Uberjob.Json
