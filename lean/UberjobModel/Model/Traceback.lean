import UberjobModel.Gen.Traceback
/-!
# Symbolic tracebacks (src/uberjob/_util/traceback.py and the places that capture / hand on a frame)

A Python stack is a `List Frame`, innermost first.  A Python *frame object* is a non-empty suffix of the
stack (`frame.f_back` is its tail) and `None` is the empty list.

`recurse`, `getStackFrame` use the GENERATED truncation test, depth decrement, `MAX_TRACEBACK_DEPTH` and default
`initial_depth`; `render` uses the generated texts and frame format.  Core Lean only (linked into the driver).
-/
namespace Uberjob.Traceback
open Uberjob.Gen.Traceback

/-- `(frame.f_code.co_name, frame.f_code.co_filename, frame.f_lineno)` -/
structure Frame where
  name : String
  path : String
  line : Nat
deriving DecidableEq, Repr

/-- What `get_stack_frame` returns: `None` | `TruncatedStackFrame` | `StackFrame(name, path, line, outer=…)`. -/
inductive Chain where
  | none
  | truncated
  | frame (f : Frame) (outer : Chain)
deriving DecidableEq, Repr

/-- `fs` as a chain of `StackFrame`s ending in `tail`. -/
def Chain.ofList (fs : List Frame) (tail : Chain) : Chain := fs.foldr Chain.frame tail

/-- The innermost captured frame, if the chain starts with one. -/
def Chain.head? : Chain → Option Frame
  | .frame f _ => some f
  | _ => Option.none

/-- `get_stack_frame.recurse(frame, depth)`:
    `if not frame: return None` / `if <truncTest depth>: return TruncatedStackFrame` /
    `return StackFrame(…, outer=recurse(frame.f_back, <nextDepth depth>))`. -/
def recurse : List Frame → Int → Chain
  | [], _ => .none
  | f :: back, depth =>
    if truncTest depth then .truncated else .frame f (recurse back (nextDepth depth))

/-- `frame.f_back`; on `None` the attribute access raises (`Option.none`). -/
def fBack : List Frame → Option (List Frame)
  | [] => Option.none
  | _ :: back => some back

/-- `for _ in range(n): initial_frame = initial_frame.f_back` -/
def walk : Nat → List Frame → Option (List Frame)
  | 0, fr => some fr
  | n + 1, fr => (fBack fr).bind (walk n)

/-- `get_stack_frame(initial_depth)` evaluated while the Python stack is `stack`
    (`stack.head` is the frame of `get_stack_frame` itself, what `inspect.currentframe()` returns).
    `Option.none`: the walk ran off the stack (`AttributeError` on `None.f_back`). -/
def getStackFrame (stack : List Frame) (initDepth : Nat := initialDepth) : Option Chain :=
  (walk initDepth stack).map (fun fr => recurse fr maxDepth)

/-! ## Rendering -/

/-- `pat in s` for Python strings (substring test). -/
def isInfix (pat : List Char) : List Char → Bool
  | [] => pat.isEmpty
  | c :: cs => pat.isPrefixOf (c :: cs) || isInfix pat cs

/-- `"/IPython/core/" in stack_frame.path` -/
def cut (f : Frame) : Bool := isInfix ipythonCut.toList f.path.toList

/-- An element of the list `stack_frames` built by `render_symbolic_traceback`. -/
inductive Entry where
  | frame (f : Frame)
  | truncated
deriving DecidableEq, Repr

/-- The `while stack_frame:` loop of `render_symbolic_traceback` (the list it builds, in append order). -/
def collect : Chain → List Entry
  | .none => []
  | .truncated => [.truncated]
  | .frame f outer => if cut f then [] else .frame f :: collect outer

/-- `format_stack_frame` -/
def formatEntry : Entry → String
  | .truncated => truncatedText
  | .frame f => formatFrame f.path f.line f.name

/-- The lines joined by `render_symbolic_traceback`: header, then `reversed(stack_frames)` formatted. -/
def renderLines (c : Chain) : List String := headerText :: (collect c).reverse.map formatEntry

/-- `render_symbolic_traceback(stack_frame)` -/
def render (c : Chain) : String := "\n".intercalate (renderLines c)

/-- `str(CallError(call))` (pinned by the fact `callErrorRendersCallFrame`); `fqn = fully_qualified_name(call.fn)`. -/
def callErrorMessage (fqn : String) (c : Chain) : String :=
  "\n".intercalate ["An exception was raised in a symbolic call to " ++ fqn ++ ".", render c]

/-! ## Who captures, who inherits -/

/-- `get_stack_frame()` evaluated inside the API function `s`; `u` is the Python stack of the API function's
    caller (`u.head` = the frame executing the user's line), `api` the frame of the API function and `g` the
    frame of `get_stack_frame`.  That these are the ONLY frames in between is the generated fact `siteDirect s`;
    if it does not hold the model makes no claim. -/
def captureAt (s : Site) (g api : Frame) (u : List Frame) : Option Chain :=
  if siteDirect s then getStackFrame (g :: api :: u) else Option.none

/-- The frame stored at a nested creation site: the one handed in if the source says so (`passesFrame`),
    otherwise some other value (`fresh`, e.g. a new capture from inside uberjob) about which nothing is known. -/
def pick (n : Nested) (passed fresh : Chain) : Chain := if passesFrame n then passed else fresh

inductive Kind where
  | user | gather | unpack | getitem | source | storeRead | storeWrite
deriving DecidableEq, Repr

/-- A symbolic call, as far as attribution is concerned. -/
structure SymCall where
  kind : Kind
  frame : Chain
deriving DecidableEq, Repr

/-- A registry entry (`RegistryValue`), as far as attribution is concerned. -/
structure RegEntry where
  isSource : Bool
  frame : Chain
deriving DecidableEq, Repr

/-- An argument handed to `call` / `gather` / `run(output=…)`: a `Node`, a plain value, or one of the built-in
    containers (list / tuple / set / dict — a dict's items are 2-tuples, i.e. containers again). -/
inductive Val where
  | node
  | leaf
  | cont (items : List Val)

mutual
/-- `Plan._gather(stack_frame, value)`: (does it evaluate to a `Node` before the final `lit`?, the gather calls created). -/
def gatherV (sf fresh : Chain) : Val → Bool × List SymCall
  | .node => (true, [])
  | .leaf => (false, [])
  | .cont items =>
    let r := gatherL sf fresh items
    if r.1 then (true, r.2 ++ [⟨.gather, pick .gatherNested sf fresh⟩]) else (false, r.2)
def gatherL (sf fresh : Chain) : List Val → Bool × List SymCall
  | [] => (false, [])
  | v :: vs =>
    let a := gatherV sf fresh v
    let b := gatherL sf fresh vs
    (a.1 || b.1, a.2 ++ b.2)
end

/-- `Plan._call(stack_frame, fn, *args, **kwargs)`: the call itself and the gather calls for its arguments. -/
def callCalls (kind : Kind) (sf fresh : Chain) (args kwargs : List Val) : List SymCall :=
  ⟨kind, pick .callNode sf fresh⟩
    :: ((gatherL (pick .callArgGather sf fresh) fresh args).2 ++ (gatherL (pick .callKwargGather sf fresh) fresh kwargs).2)

/-- `plan.call(fn, *args, **kwargs)` -/
def planCall (g api : Frame) (u : List Frame) (fresh : Chain) (args kwargs : List Val) : Option (List SymCall) :=
  (captureAt .planCall g api u).map (fun sf => callCalls .user sf fresh args kwargs)

/-- `plan.gather(value)` -/
def planGather (g api : Frame) (u : List Frame) (fresh : Chain) (v : Val) : Option (List SymCall) :=
  (captureAt .planGather g api u).map (fun sf => (gatherV sf fresh v).2)

/-- `plan.unpack(iterable, length)`: the `unpack` call (with the gather calls of `iterable`) and `length` getitem calls. -/
def planUnpack (g api : Frame) (u : List Frame) (fresh : Chain) (iterable : Val) (length : Nat) : Option (List SymCall) :=
  (captureAt .planUnpack g api u).map (fun sf =>
    callCalls .unpack (pick .unpackTuple sf fresh) fresh [iterable, .leaf] []
      ++ (List.range length).flatMap (fun _ => callCalls .getitem (pick .unpackGetitem sf fresh) fresh [.node, .leaf] []))

/-- `registry.add(node, store)` -/
def registryAdd (g api : Frame) (u : List Frame) : Option RegEntry :=
  (captureAt .registryAdd g api u).map (fun sf => ⟨false, sf⟩)

/-- `registry.source(plan, store)`: the placeholder call and the registry entry. -/
def registrySource (g api : Frame) (u : List Frame) (fresh : Chain) : Option (List SymCall × RegEntry) :=
  (captureAt .registrySource g api u).map (fun sf =>
    (callCalls .source (pick .sourceCall sf fresh) fresh [] [], ⟨true, pick .sourceEntry sf fresh⟩))

/-- `run(plan, output=value)`: the implicit gather of the output. -/
def runOutput (g api : Frame) (u : List Frame) (fresh : Chain) (v : Val) : Option (List SymCall) :=
  (captureAt .run g api u).map (fun sf => (gatherV sf fresh v).2)

/-- `_add_value_store`: the `read` call, and the `write` call when the entry is out of date and not a source
    (`nested_call(...) = plan._call(registry_value.stack_frame, …)`, arguments are nodes). -/
def storeCalls (e : RegEntry) (fresh : Chain) (isStale : Bool) : List SymCall :=
  callCalls .storeRead (pick .storeCall e.frame fresh) fresh [.node] []
    ++ (if isStale && !e.isSource then callCalls .storeWrite (pick .storeCall e.frame fresh) fresh [.node, .node] [] else [])

/-! ## The error path -/

/-- A node of the (logical or physical) plan as seen by the error path: only a `Call` has `fn` and `stack_frame`. -/
structure PNode where
  isCall : Bool
  frame : Chain
deriving DecidableEq, Repr

inductive Raised where
  | callError (call : PNode)       -- `CallError`, its `.call` and (through `call.stack_frame`) its message
  | attributeError                 -- `CallError.__init__` read `.fn` of something that is not a `Call`
deriving DecidableEq, Repr

/-- `run`: `except NodeError as e: raise CallError(e.node) from e.__cause__`, where `e.node` is the node whose
    processing failed first (engine, property C06): `process` raises `NodeError(node)` itself for a `Call`; for any
    other node the engine's `coerce_node_error(node, exception)` builds it.  `CallError.__init__` reads
    `call.fn` and `call.stack_frame`. -/
def runRaises (failed : PNode) : Raised :=
  if failed.isCall then .callError failed else .attributeError

end Uberjob.Traceback
