import UberjobModel.Model.History
/-! Driver commands for the cache model (stateful: a plan and a world). -/
namespace Uberjob.Cache

structure DrvSt where
  P : LPlan := ⟨0, fun _ => [], fun _ => [], fun _ => none⟩
  w : World := ⟨fun _ => none⟩

def natsOf (s : String) (sep : String) : List Nat :=
  (s.splitOn sep).filterMap (fun t => t.trimAscii.toString.toNat?)

/-- `i:a,b;j:c` ↦ lookup table -/
def tableOf (s : String) : List (Nat × List Nat) :=
  (s.splitOn ";").filterMap (fun e =>
    match e.trimAscii.toString.splitOn ":" with
    | [k, vs] => (k.trimAscii.toString.toNat?).map (fun k => (k, natsOf vs ","))
    | _ => none)

def lookupL (t : List (Nat × List Nat)) (k : Nat) : List Nat :=
  match t.find? (·.1 == k) with
  | some (_, v) => v
  | none => []

def regOf (s : String) : List (Nat × Bool) :=
  (s.splitOn " ").filterMap (fun e =>
    match e.trimAscii.toString.splitOn ":" with
    | [k, "S"] => (k.toNat?).map (fun k => (k, true))
    | [k, "N"] => (k.toNat?).map (fun k => (k, false))
    | _ => none)

def showOptInt : Option Int → String
  | none => "-"
  | some a => toString a

/-- one request line → new state and reply -/
def drv (c : DrvSt) (line : String) : DrvSt × String :=
  match line.splitOn "|" with
  | [hd, a, b, r] =>
    -- cplan N | preds | args | reg
    match (hd.trimAscii.toString.splitOn " ").filter (· ≠ "") with
    | ["cplan", n] =>
      match n.toNat? with
      | some n =>
        let pt := tableOf a
        let at_ := tableOf b
        let rt := regOf r
        let P : LPlan := ⟨n, lookupL pt, lookupL at_, fun k => (rt.find? (·.1 == k)).map (·.2)⟩
        ({ P := P, w := ⟨fun _ => none⟩ }, "ok")
      | none => (c, "bad-op")
    | _ => (c, "bad-op")
  | [one] =>
    match (one.trimAscii.toString.splitOn " ").filter (· ≠ "") with
    | ["cop", "write", i, t] =>
      match i.toNat?, t.toInt? with
      | some i, some t => ({ c with w := applyOp c.P c.w (.write i t) }, "ok")
      | _, _ => (c, "bad-op")
    | ["cop", "update", s, ver, t] =>
      match s.toNat?, ver.toNat?, t.toInt? with
      | some s, some ver, some t => ({ c with w := applyOp c.P c.w (.update s (.src s ver) t) }, "ok")
      | _, _, _ => (c, "bad-op")
    | ["cop", "delete", i] =>
      match i.toNat? with
      | some i => ({ c with w := applyOp c.P c.w (.delete i) }, "ok")
      | none => (c, "bad-op")
    | ["cstale", f] =>
      let F := f.toInt?
      let st := (List.range c.P.n).filter (fun i => isStale c.P c.w F i)
      (c, "stale " ++ " ".intercalate (st.map toString))
    | ["ctm", f] =>
      let F := f.toInt?
      (c, "tm " ++ " ".intercalate ((List.range c.P.n).map (fun i => showOptInt (sres c.P c.w F i).tm)))
    | ["cval", i] =>
      match i.toNat? with
      | some i => (c, match c.w.st i with | some (v, t) => s!"{v.toStr} @{t}" | none => "-")
      | none => (c, "bad-op")
    | ["cfs", i] => match i.toNat? with | some i => (c, (FS c.P c.w i).toStr) | none => (c, "bad-op")
    | ["cseen", i] => match i.toNat? with | some i => (c, (seen c.P c.w i).toStr) | none => (c, "bad-op")
    | ["craw", i] => match i.toNat? with | some i => (c, (rawNow c.P c.w i).toStr) | none => (c, "bad-op")
    | _ => (c, "bad-op")
  | _ => (c, "bad-op")

end Uberjob.Cache
