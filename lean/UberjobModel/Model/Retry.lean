import UberjobModel.Gen.Retry
/-!
# `create_retry` (src/uberjob/_util/retry.py)

The decorated function is called repeatedly; what each successive call does is given by a *script*
`Nat → Outcome` (attempt index ↦ returns `v` / raises an `Exception` / raises a `BaseException` that is not an
`Exception`, e.g. `KeyboardInterrupt`).  The loop bound, the is-last-attempt test, the validation tests and the
default `exc_type` are the GENERATED definitions of `Uberjob.Gen.Retry`.  Core Lean only (linked into the driver).
-/
namespace Uberjob.Retry
open Uberjob.Gen.Retry

/-- What `except` can tell apart: an instance of (a subclass of) `Exception`, or any other `BaseException`. -/
inductive ExcKind where
  | exc
  | baseExc
deriving DecidableEq, Repr

/-- Outcome of one attempt. -/
inductive Outcome (V E : Type) where
  | ok (v : V)
  | raise (k : ExcKind) (e : E)
deriving DecidableEq, Repr

/-- the attempt raised an `Exception` -/
@[match_pattern] abbrev Outcome.exc {V E : Type} (e : E) : Outcome V E := .raise .exc e
/-- the attempt raised a `BaseException` that is not an `Exception` -/
@[match_pattern] abbrev Outcome.baseExc {V E : Type} (e : E) : Outcome V E := .raise .baseExc e

/-- `isinstance(e, exc_type)` for the handler `except exc_type:` -/
def caught : ExcClass → ExcKind → Bool
  | .baseException, _ => true
  | .exception, .exc => true
  | .exception, .baseExc => false

/-- How the wrapped call ends. -/
inductive Res (V E : Type) where
  | returned (v : V)
  | raised (k : ExcKind) (e : E)
  | returnedNone            -- the `for` loop ran out without returning or raising: the wrapper returns `None`
deriving DecidableEq, Repr

structure Run (V E : Type) where
  res : Res V E
  attempts : Nat            -- how many times the decorated function was called
deriving DecidableEq, Repr

/-- What a single call that ends with `o` looks like from outside. -/
def final {V E : Type} : Outcome V E → Res V E
  | .ok v => .returned v
  | .raise k e => .raised k e

/-- `for attempt_index in range(..)`: `r` iterations left, `i` = `attempt_index`:
    `try: return f(*args, **kwargs)` / `except exc_type:` `if <isLastAttempt i attempts>: raise`. -/
def loop {V E : Type} (excType : ExcClass) (attempts : Int) (script : Nat → Outcome V E) : Nat → Nat → Run V E
  | 0, i => ⟨.returnedNone, i⟩
  | r + 1, i =>
    match script i with
    | .ok v => ⟨.returned v, i + 1⟩
    | .raise k e =>
      if caught excType k then
        if isLastAttempt (i : Int) attempts then ⟨.raised k e, i + 1⟩ else loop excType attempts script r (i + 1)
      else ⟨.raised k e, i + 1⟩

/-- `wrapper(*args, **kwargs)` of `create_retry(attempts, exc_type)(f)`. -/
def wrapper {V E : Type} (attempts : Int) (script : Nat → Outcome V E) (excType : ExcClass := defaultExcType) : Run V E :=
  loop excType attempts script (loopBound attempts) 0

/-- What `create_retry(attempts)` does before any call. -/
inductive Created where
  | valueError     -- `raise ValueError("attempts must be positive.")`
  | identity       -- `return identity`
  | wrapper        -- `return inner_retry`
deriving DecidableEq, Repr

def createRetry (attempts : Int) : Created :=
  if rejects attempts then .valueError else if isIdentity attempts then .identity else .wrapper

/-- The undecorated function called once. -/
def direct {V E : Type} (script : Nat → Outcome V E) : Run V E := ⟨final (script 0), 1⟩

/-- `create_retry(attempts)(f)(*args, **kwargs)`; `none`: `create_retry` itself raised `ValueError`. -/
def retryLoop {V E : Type} (attempts : Int) (script : Nat → Outcome V E) : Option (Run V E) :=
  match createRetry attempts with
  | .valueError => none
  | .identity => some (direct script)
  | .wrapper => some (wrapper attempts script)

/-- Is this outcome an exception that the default handler catches (and therefore retries unless it is the last attempt)? -/
def retried {V E : Type} : Outcome V E → Bool
  | .ok _ => false
  | .raise k _ => caught defaultExcType k

/-- Index of the first attempt among `i, i+1, …, i+r-1` whose outcome is not a retried exception; `i + r` if none. -/
def firstStop {V E : Type} (script : Nat → Outcome V E) : Nat → Nat → Nat
  | 0, i => i
  | r + 1, i => if retried (script i) then firstStop script r (i + 1) else i

/-- A script given by a finite list (what the driver uses); attempts beyond the list succeed with `dflt`. -/
def ofList {V E : Type} (l : List (Outcome V E)) (dflt : V) : Nat → Outcome V E :=
  fun i => l.getD i (.ok dflt)

end Uberjob.Retry
