import UberjobModel.Basic
def main : IO Unit := IO.println Uberjob.version
