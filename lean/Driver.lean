import UberjobModel.Model.Engine
import UberjobModel.Model.Kahn
import UberjobModel.Model.FileStoreDrv
import UberjobModel.Model.TextCodecDrv
import UberjobModel.Model.JsonDrv
import UberjobModel.Model.GreedyDrv
import UberjobModel.Model.TimeDrv
import UberjobModel.Model.RefsDrv
import UberjobModel.Model.HeapDrv
import UberjobModel.Model.PlanDrv
import UberjobModel.Model.SmallDrv
import UberjobModel.Model.CacheDrv
import UberjobModel.Model.Notify
import UberjobModel.Model.Queues
import UberjobModel.Model.PQueue
import UberjobModel.Model.ProgressDrv
import UberjobModel.Model.PhysDrv
import UberjobModel.Model.ExecDrv
import UberjobModel.Model.EngineFine
import UberjobModel.Model.EngineQ
/-!
  Line-protocol driver for the executable models (one request per line, one reply per line).
  Used by the Python harness for the correspondence checks (T2/T3).
-/
open Uberjob

namespace Drv

def nats (s : String) : List Nat :=
  (s.splitOn " ").filterMap (fun t => t.trimAscii.toString.toNat?)

def showItem : Engine.Item → String
  | .node x => s!"n{x}"
  | .done => "D"

def showW : Engine.W → String
  | .idle => "idle"
  | .held i => s!"held:{showItem i}"
  | .running x => s!"run:{x}"
  | .releasing x todo => s!"rel:{x}:{todo.length}"
  | .finishing l => if l then "fin:D" else "fin"
  | .exited => "exit"

def showCoord : Engine.Coord → String
  | .spawning i => s!"spawning:{i}"
  | .waiting => "waiting"
  | .stopping i => s!"stopping:{i}"
  | .putting k i => s!"putting:{k}:{i}"
  | .joining i => s!"joining:{i}"
  | .returned i => s!"returned:{i}"

def sortStrs (l : List String) : List String := (l.toArray.qsort (· < ·)).toList

def showSt (g : Engine.Graph) (s : Engine.St) : String :=
  let q := " ".intercalate (sortStrs (s.queue.map showItem))
  let multi := g.nodes.filter (fun y => g.predCount y ≥ 2)
  let rem := " ".intercalate (multi.map (fun y => s!"{y}:{s.rem y}"))
  let first := match s.first with | some x => toString x | none => "-"
  let ws := " ".intercalate (s.ws.map showW)
  s!"q=[{q}] unf={s.unfinished} stop={s.stop} errs={s.errs} first={first} rem=[{rem}] ws=[{ws}] coord={showCoord s.coord} begun={s.begun} okd={s.okd} failed={s.failed} skipped={s.skipped}"

def parseItem (t : String) : Option Engine.Item :=
  if t == "D" then some .done
  else if t.startsWith "n" then (t.drop 1).toString.toNat?.map .node else none

def parseLabel (ts : List String) : Option Engine.Label :=
  match ts with
  | ["spawn"] => some .spawn
  | ["get", w, i] => do some (.get (← w.toNat?) (← parseItem i))
  | ["check", w] => do some (.check (← w.toNat?))
  | ["finOk", w] => do some (.finOk (← w.toNat?))
  | ["finFail", w] => do some (.finFail (← w.toNat?))
  | ["release", w, y] => do some (.release (← w.toNat?) (← y.toNat?))
  | ["taskDone", w] => do some (.taskDone (← w.toNat?))
  | ["joinReturn"] => some .joinReturn
  | ["interrupt"] => some .interrupt
  | ["setStop"] => some .setStop
  | ["putDone"] => some .putDone
  | ["joined"] => some .joined
  | _ => none

structure Ctx where
  g : Engine.Graph := Engine.Graph.ofEdges [] []
  cfg : Engine.Cfg := ⟨1, some 0⟩
  st : Engine.St := Engine.init (Engine.Graph.ofEdges [] [])
  dead : Bool := false      -- a label was rejected; later events of this trace are not applied
  cache : Cache.DrvSt := {}

def parseEdges (s : String) : List (Nat × Nat) :=
  (s.splitOn " ").filterMap (fun t =>
    match t.trimAscii.toString.splitOn "," with
    | [a, b] => do some ((← a.toNat?), (← b.toNat?))
    | _ => none)

/-- `engine W MAXERR|none | n0 n1 ... | u,v u,v ...` -/
def cmdEngine (rest : String) : Ctx × String :=
  match rest.splitOn "|" with
  | [hd, ns, es] =>
    match (hd.trimAscii.toString.splitOn " ").filter (· ≠ "") with
    | [w, me] =>
      match w.toNat? with
      | some w =>
        let g := Engine.Graph.ofEdges (nats ns) (parseEdges es)
        ({ g := g, cfg := ⟨w, me.toNat?⟩, st := Engine.init g }, "ok")
      | none => ({}, "bad-op")
    | _ => ({}, "bad-op")
  | _ => ({}, "bad-op")

/-- `kahn | n0 n1 ... | u,v u,v ...` -/
def cmdKahn (rest : String) : String :=
  match rest.splitOn "|" with
  | [_, ns, es] =>
    let g := Engine.Graph.ofEdges (nats ns) (parseEdges es)
    match Kahn.kahn g with
    | some out => "order " ++ " ".intercalate (out.map toString)
    | none => "cycle"
  | _ => "bad-op"

def parseFine (t : String) : Option EngineFine.Label2 :=
  match (t.trimAscii.toString.splitOn " ").filter (· ≠ "") with
  | ["acq", w, y] => do some (.acquire (← w.toNat?) (← y.toNat?))
  | ["dec", w] => do some (.dec (← w.toNat?))
  | ["test", w] => do some (.test (← w.toNat?))
  | ["put", w] => do some (.put (← w.toNat?))
  | ["unl", w] => do some (.unlock (← w.toNat?))
  | ["facq", w] => do some (.facquire (← w.toNat?))
  | ["fcount", w] => do some (.fcount (← w.toNat?))
  | ["ffirst", w] => do some (.ffirst (← w.toNat?))
  | ["fstop", w] => do some (.fstop (← w.toNat?))
  | ["funl", w] => do some (.funlock (← w.toNat?))
  | "b" :: rest => (parseLabel rest).map .base
  | _ => none

def runFine (g : Engine.Graph) (cfg : Engine.Cfg) : EngineFine.St2 → Nat → List String → String
  | s, _, [] => "ok " ++ showSt g s.c ++ s!" lock={s.lock.isSome} flock={s.flock.isSome}"
  | s, k, t :: ts =>
    match parseFine t with
    | none => s!"bad-label {k} {t}"
    | some l =>
      match EngineFine.step2? g cfg s l with
      | some s' => runFine g cfg s' (k + 1) ts
      | none => s!"reject {k} {t} :: {showSt g s.c} lock={s.lock.isSome}"

/-- `fine W MAXERR|none | n0 n1 ... | u,v u,v ... | label ; label ; ...` (stateless) -/
def cmdFine (rest : String) : String :=
  match rest.splitOn "|" with
  | [hd, ns, es, ls] =>
    match (hd.trimAscii.toString.splitOn " ").filter (· ≠ "") with
    | [w, me] =>
      match w.toNat? with
      | some w =>
        let g := Engine.Graph.ofEdges (nats ns) (parseEdges es)
        runFine g ⟨w, me.toNat?⟩ (EngineFine.init2 g) 0 ((ls.splitOn ";").filter (fun t => t.trimAscii.toString ≠ ""))
      | none => "bad-op"
    | _ => "bad-op"
  | _ => "bad-op"

def parseQ (t : String) : Option EngineQ.LabelQ :=
  match (t.trimAscii.toString.splitOn " ").filter (· ≠ "") with
  | ["take", w, i] => do some (.getTake (← w.toNat?) (← parseItem i))
  | ["sleep", w] => do some (.getSleep (← w.toNat?))
  | "put" :: v :: rest => do
      let l ← parseLabel rest
      if v == "-" then some (.put l none) else some (.put l (some (← v.toNat?)))
  | ["taskDone", w] => do some (.taskDone (← w.toNat?))
  | ["joinTake"] => some .joinTake
  | ["joinSleep"] => some .joinSleep
  | ["interrupt"] => some .interrupt
  | "b" :: rest => (parseLabel rest).map .base
  | _ => none

def showCS : EngineQ.CS → String
  | .awake => "awake"
  | .asleep => "asleep"
  | .woken => "woken"

def sortNats (l : List Nat) : List Nat := (l.toArray.qsort (· < ·)).toList

def runQ (g : Engine.Graph) (cfg : Engine.Cfg) : EngineQ.StQ → Nat → List String → String
  | s, _, [] => "ok " ++ showSt g s.c ++ s!" sleep={sortNats s.sleep} woken={sortNats s.woken} cs={showCS s.cs}"
  | s, k, t :: ts =>
    match parseQ t with
    | none => s!"bad-label {k} {t}"
    | some l =>
      match EngineQ.stepQ? g cfg s l with
      | some s' => runQ g cfg s' (k + 1) ts
      | none => s!"reject {k} {t} :: {showSt g s.c} sleep={sortNats s.sleep} woken={sortNats s.woken} cs={showCS s.cs}"

/-- `wake W MAXERR|none | n0 n1 ... | u,v u,v ... | label ; label ; ...` (stateless) -/
def cmdWake (rest : String) : String :=
  match rest.splitOn "|" with
  | [hd, ns, es, ls] =>
    match (hd.trimAscii.toString.splitOn " ").filter (· ≠ "") with
    | [w, me] =>
      match w.toNat? with
      | some w =>
        let g := Engine.Graph.ofEdges (nats ns) (parseEdges es)
        runQ g ⟨w, me.toNat?⟩ (EngineQ.initQ g) 0 ((ls.splitOn ";").filter (fun t => t.trimAscii.toString ≠ ""))
      | none => "bad-op"
    | _ => "bad-op"
  | _ => "bad-op"

def step (c : Ctx) (line : String) : Ctx × String :=
  let line := line.trimAscii.toString
  match (line.splitOn " ").filter (· ≠ "") with
  | "engine" :: _ => cmdEngine (line.drop 6).toString
  | "kahn" :: _ => (c, cmdKahn line)
  | "fine" :: _ => (c, cmdFine (line.drop 4).toString)
  | "wake" :: _ => (c, cmdWake (line.drop 4).toString)
  | "fs" :: _ => (c, Uberjob.FileStore.drv line)
  | "text" :: _ => (c, Uberjob.TextCodec.drv line)
  | "json" :: _ => (c, Uberjob.Json.drv line)
  | "greedy" :: _ => (c, Uberjob.Greedy.drv line)
  | "c18" :: _ => (c, Uberjob.Time.drv line)
  | "c16" :: _ => (c, Uberjob.Refs.drv line)
  | "c13plan" :: _ | "c13reg" :: _ | "c13run" :: _ => (c, Uberjob.Heap.drv line)
  | "c02" :: _ => (c, Uberjob.Plan.drv line)
  | "tb" :: _ | "retry" :: _ => (c, Uberjob.Small.drv line)
  | "progress" :: _ => (c, Uberjob.Progress.drv line)
  | "phys" :: _ => (c, Uberjob.Phys.drv line)
  | "exec" :: _ => (c, Uberjob.Exec.drv line)
  | "execn" :: _ => (c, Uberjob.Exec.drv line)
  | "execp" :: _ => (c, Uberjob.Exec.drv line)
  | "notifs" :: _ => (c, Notify.drv line)
  | "rq" :: _ => (c, Queues.drv line)
  | "pq" :: _ => (c, Uberjob.PQueue.drv line)
  | "cplan" :: _ => let (d, r) := Cache.drv c.cache line; ({ c with cache := d }, r)
  | "cop" :: _ => let (d, r) := Cache.drv c.cache line; ({ c with cache := d }, r)
  | "cstale" :: _ => (c, (Cache.drv c.cache line).2)
  | "ctm" :: _ => (c, (Cache.drv c.cache line).2)
  | "cval" :: _ => (c, (Cache.drv c.cache line).2)
  | "cfs" :: _ => (c, (Cache.drv c.cache line).2)
  | "cseen" :: _ => (c, (Cache.drv c.cache line).2)
  | "craw" :: _ => (c, (Cache.drv c.cache line).2)
  | "ev" :: ts =>
    if c.dead then (c, "dead") else
    match parseLabel ts with
    | none => (c, "bad-op")
    | some l =>
      match Engine.step? c.g c.cfg c.st l with
      | some s' => ({ c with st := s' }, "ok")
      | none => ({ c with dead := true }, "reject")
  | ["snap"] => (c, showSt c.g c.st)
  | ["preds", y] => (c, match y.toNat? with | some y => toString (c.g.preds y) | none => "bad-op")
  | _ => (c, "bad-op")

partial def loop (h : IO.FS.Stream) (out : IO.FS.Stream) (c : Ctx) : IO Unit := do
  let line ← h.getLine
  if line.isEmpty then return ()
  let (c', reply) := step c line
  out.putStrLn reply
  loop h out c'

end Drv

def main : IO Unit := do
  let out ← IO.getStdout
  Drv.loop (← IO.getStdin) out {}
  out.flush
